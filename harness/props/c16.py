"""C16 — mesopore size distributions conserve volume and follow the Kelvin equation.

Lean: Props/C16.lean over Model/Meso.lean (the three recurrences, statement by statement) and Gen/CharR.lean (Kelvin and thickness
formulas regenerated from the source); Props/C16/Session.lean + Props/C16/Tabulated.lean over Model/MesoSession.lean (the isotherm
entry point on the CURRENT property set of the adsorbate object the isotherm refers to, sessions of analyses with object identity /
registry / in-place edits, tabulated thickness curves).
Tie: the ℚ model is run against the real psd_pygapsdh / psd_bjh / psd_dollimore_heal on the same arrays (Drv/Char.lean); the generated
Kelvin/thickness formulas are run against the real functions; the session model (Drv/Meso.lean, stateful) is run against one real
interpreter session: user-defined Adsorbate objects created, re-registered under the same name, edited in place, isotherms built by
name, psd_mesoporous called with every thickness / Kelvin model kind; the tabulated-curve model against SiO2_JKO / CB_KJG.
Failing-input search: the property clauses on psd_mesoporous (isotherm entry point) with an independent SI-unit Kelvin equation and
liquid-volume bookkeeping from the property set that is current AT THE TIME OF THE CALL, over sequences of analyses in one process
that share adsorbate names, temperatures, data, material names and callable names.
Boundary coincidence and near-coincident data (Props/C16/Boundary.lean): pressure limits EXACTLY equal to measured pressures (lower, upper,
both, first / last point, neighbouring points, readings equal to the default limits 0.1 / 0.99) and consecutive readings 1e-12 … 1e-4
relative apart (with and without uptake between them, the single step between two such readings) are generated on every entry point —
the three raw functions (model arrays), psd_mesoporous (session) — and judged by the same clauses; `dist·Δw = V` is asserted entry by
entry with the increments of the REPORTED widths (exact in floating point at any spacing) and with the independent widths under a
tolerance that grows with the measured conditioning eps·(w_i + w_{i+1})/Δw_i of the increment; the ℚ models return their exact width
increments so that the distribution is compared as `Δdist·Δw` against the volume scale at any spacing.
Stored representation at the entry point (Props/C16/Session.lean, theorems kelvinRadius_mul_temperature / kelvinRadius_stored_scale_ne /
kelvinRadius_neg_of_stored_neg): the isotherms of the session store their temperature in K or in °C (the same physical temperature; 273.15 K is
the stored number 0) and are judged by the same independent Kelvin equation in kelvin; every other analysis is repeated on a TWIN — the same
physical isotherm stored in another representation (temperature K/°C, pressure relative / relative% / absolute in Pa, kPa, bar, mbar, atm, torr
through the saturation pressure (CoolProp for built-ins, a literal for the user-defined adsorbates), loading mmol, mol, kmol, cm3(STP), mg, g, kg,
liquid cm3, material g / kg / mg), either constructed from numbers converted by the harness or constructed like the original and converted by
the isotherm's own convert_* methods — and must give the same refusal, the same points, the same widths, and volumes / areas / cumulative
curve / distribution that differ by the material unit only.
"""
import math
import sys
from pathlib import Path

from pgv.charlib import parse_qlist, q, qlist, quiet_logging, tv_run
from pgv.core import SRC, import_pygaps
from pgv.models import logu, relerr

if hasattr(sys, "set_int_max_str_digits"):
    sys.set_int_max_str_digits(0)     # exact rationals coming back from the ℚ model can have thousands of digits

R = 6.02214076e23 * 1.380649e-23      # exact SI value (N_A k_B)
FACTOR = {"cylindrical": 2.0, "hemispherical": 1.0, "hemicylindrical": 0.5}
# published table (Rouquerol et al.; docstring of get_meniscus_geometry): condensation in an open cylinder proceeds from a cylindrical film,
# everything else from / to a hemispherical meniscus, slits have hemicylindrical menisci
MENISCUS = {("ads", "slit"): "hemicylindrical", ("ads", "cylinder"): "cylindrical", ("ads", "halfopen-cylinder"): "hemispherical", ("ads", "sphere"): "hemispherical",
            ("des", "slit"): "hemicylindrical", ("des", "cylinder"): "hemispherical", ("des", "halfopen-cylinder"): "hemispherical", ("des", "sphere"): "hemispherical"}
# the two standard thickness curves by their published source (Jaroniec/Kruk/Olivier 1999: LiChrospher Si-1000 silica;
# Kruk/Jaroniec/Gadkaree 1997: Cabot BP280 carbon black), read from the data files, not through the library
STD_CURVES = {"SiO2 Jaroniec/Kruk/Olivier": ("LiChrospher Si-1000 silica.csv", "SiO2_JKO"),
              "carbon black Kruk/Jaroniec/Gadkaree": ("Cabot BP280 carbon black.csv", "CB_KJG")}
MONOLAYER_NM = 0.354                  # thickness of one nitrogen layer (t = n / n_m * 0.354 nm)
USER_NAMES = ["pgv-gas-a", "pgv-gas-b"]
USER_TEMPS = [77.355, 87.3]
# stored representations of one physical isotherm (unit tables as documented by the library: factor = size of the unit in the SI-like base unit)
U_PRESSURE = {"Pa": 1.0, "kPa": 1e3, "bar": 1e5, "mbar": 100.0, "atm": 101325.0, "torr": 133.322}
U_MOLAR = {"mmol": 1e-3, "mol": 1.0, "kmol": 1e3, "cm3(STP)": 4.461e-5}
U_MASS = {"mg": 1e-3, "g": 1.0, "kg": 1e3}
CELSIUS = 273.15


def kelvin_si(p, factor, T, rho, M, gamma):
    """r [nm] from ln(p) = - 2 γ V_m / (f r R T) in SI units."""
    vm = M / rho * 1e-6          # m3/mol
    g = gamma * 1e-3             # N/m
    return -2 * g * vm / (factor * R * T * math.log(p)) * 1e9


def agree(a, b, tol=1e-9):
    if len(a) != len(b):
        return False
    scale = max([abs(float(x)) for x in b] + [1e-300])
    return all(abs(float(x) - float(y)) <= tol * max(scale, abs(float(y))) for x, y in zip(a, b))


EPS = 2.220446049250313e-16
COND = 32.0        # allowance for the rounding of the two widths whose difference is a width increment: COND * EPS * (|w_i| + |w_i+1|) / |dw_i|
                   # (measured on the unchanged tree, seeds 1-8 + thorough: at most 0.72 in these units for the independent widths, 0.49 against the ℚ models)


def cond_terms(full_widths):
    """per interval: EPS * (|w_i| + |w_i+1|) / |w_i+1 - w_i| — the relative error a width increment inherits from one rounding of each width"""
    w = [float(x) for x in full_widths]
    return [EPS * (abs(a) + abs(b)) / max(abs(b - a), 1e-300) for a, b in zip(w[:-1], w[1:])]


def dist_agree(code_dist, code_vols, model_dist, model_vols, model_widths, model_dw, tol, worst=None):
    """distribution of the implementation against the exact distribution of a ℚ model, at any spacing of the widths:
    (1) the old criterion (difference relative to the largest entry) with the conditioning allowance of the interval,
    (2) the difference TIMES the exact width increment relative to the scale of the pore volumes (an interval next to a very
        narrow one is not hidden behind the huge entry of the narrow one)."""
    m = len(model_dist)
    if not (len(code_dist) == m == len(model_dw) == len(model_widths)):
        return False
    full = [float(x) for x in model_widths] + [float(model_widths[-1] + model_dw[-1])] if m else []
    cond = cond_terms(full)
    dscale = max([abs(float(x)) for x in model_dist] + [1e-300])
    vscale = max([abs(float(x)) for x in model_vols] + [abs(float(x)) for x in code_vols] + [1e-300])
    for i in range(m):
        d = abs(float(code_dist[i]) - float(model_dist[i]))
        allow = tol + COND * cond[i]
        if worst is not None and cond[i] > 1e-12:
            worst[0] = max(worst[0], d * abs(float(model_dw[i])) / vscale / cond[i])
        if not d <= allow * max(dscale, abs(float(model_dist[i]))):
            return False
        if not d * abs(float(model_dw[i])) <= allow * vscale:
            return False
    return True


def qp(x):
    """a pressure or pressure limit for the ℚ window models.  The models hold the default limits as the decimals 1/10 and 99/100 (as the
    translator reads the literals), the implementation as the nearest doubles.  No double lies between a decimal and its nearest double, so
    sending exactly these two doubles as their decimals keeps the order AND the ties of everything the window selection compares."""
    if x is None:
        return "~"
    return "1/10" if x == 0.1 else "99/100" if x == 0.99 else q(x)


def qplist(xs):
    return "[" + ";".join(qp(x) for x in xs) + "]"


def read_std_curve(fname):
    """(monolayer uptake, pressures, loadings) of a standard isotherm file, parsed by hand."""
    rows = (Path(SRC) / "data" / "stdiso" / fname).read_text().splitlines()
    k = next(i for i, l in enumerate(rows) if l.startswith("data:"))
    meta = dict(l.split(",", 1) for l in rows[:k] if "," in l)
    pts = [l.split(",") for l in rows[k + 2:] if l.strip()]
    return float(meta["monolayer uptake [mmol/g]"]), [float(r[0]) for r in pts], [float(r[1]) for r in pts]


def interp_curve(ps, ts, x):
    """piecewise linear through (ps, ts); 0 below the first point, the last value above the last"""
    if x < ps[0]:
        return 0.0
    if x >= ps[-1]:
        return ts[-1]
    lo, hi = 0, len(ps) - 1
    while hi - lo > 1:
        mid = (lo + hi) // 2
        if ps[mid] <= x:
            lo = mid
        else:
            hi = mid
    return ts[lo] + (x - ps[lo]) * (ts[hi] - ts[lo]) / (ps[hi] - ps[lo])


def run(ck):
    pg = import_pygaps()
    import numpy as np
    import pygaps.characterisation as pgc
    from pygaps.characterisation import models_kelvin as mk
    from pygaps.characterisation import models_thickness as mt
    from pygaps.characterisation import psd_meso as pm
    from pygaps.utilities.exceptions import CalculationError, ParameterError
    quiet_logging()
    np.seterr(all="ignore")
    rng = ck.rng
    N = ck.n(80, 300)

    # ------------------------------------------------------------------ 1. translator validation (Kelvin, thickness) + tables
    cases, lines, plan = [], [], []
    for _ in range(ck.n(15, 60)):
        p, T, rho, M, g = rng.uniform(0.01, 0.995), rng.uniform(60, 320), rng.uniform(0.3, 2), rng.uniform(2, 150), rng.uniform(1, 40)
        if rng.random() < 0.35:
            p = 1 - logu(rng, 1e-7, 1e-2) if rng.random() < 0.6 else logu(rng, 1e-8, 1e-2)      # both ends of (0, 1)
        for mg, f in FACTOR.items():
            py = mk.kelvin_radius(p, mg, T, rho, M, g)
            cases.append(("kelvin_radius", {"pressure": p, "temperature": T, "adsorbate_surface_tension": g, "adsorbate_molar_density": M / rho, "geometry_factor": f}, py))
            ck.count(("kelvin-si", mg, p, T), bucket="oracle:Kelvin equation " + mg)
            if relerr(py, kelvin_si(p, f, T, rho, M, g)) > 1e-9:
                ck.fail_case({"clause": "Kelvin radius does not obey the Kelvin equation", "meniscus": mg}, {"p": p, "T": T, "rho": rho, "M": M, "gamma": g, "got": float(py), "expected": kelvin_si(p, f, T, rho, M, g)})
        cases.append(("kelvin_molar_density", {"adsorbate_molar_mass": M, "liquid_density": rho}, M / rho))
        cases.append(("kelvin_radius_kjs", {"pressure": p, "temperature": T, "adsorbate_surface_tension": g, "adsorbate_molar_density": M / rho},
                      mk.kelvin_radius_kjs(p, "cylindrical", T, rho, M, g)))
        if relerr(mk.kelvin_radius_kjs(p, "cylindrical", T, rho, M, g), kelvin_si(p, 1.0, T, rho, M, g) + 0.3) > 1e-9:
            ck.fail_case({"clause": "Kelvin-KJS radius is not the hemispherical Kelvin radius + 0.3 nm"}, {"p": p, "T": T})
        cases.append(("thickness_halsey", {"pressure": p}, mt.thickness_halsey(p)))
        cases.append(("thickness_harkins_jura", {"pressure": p}, mt.thickness_harkins_jura(p)))
        ld, mono = rng.uniform(0, 30), logu(rng, 0.05, 20)
        cases.append(("convert_to_thickness", {"loading": ld, "monolayer": mono}, mt.convert_to_thickness(ld, mono)))
    tv_run(ck, cases)
    for (b, g), want in MENISCUS.items():
        got = mk.get_meniscus_geometry(b, g)
        ck.count(("mg", b, g), bucket="oracle:meniscus table")
        if got != want:
            ck.fail_case({"clause": "meniscus geometry table", "branch": b, "pore_geometry": g}, {"got": got, "expected": want})
        lines.append(f"mg {b} {g}")
        plan.append(("mg", got))
    for mg in FACTOR:
        lines.append(f"gf {mg}")
        plan.append(("gf", None))

    # ------------------------------------------------------------------ 1b. tabulated thickness curves: independent reading of the data files
    slines, splan = [], []          # requests of the stateful session driver (Drv/Meso.lean) and what to compare each reply with
    curves = {}
    for tname, (fname, fn_name) in STD_CURVES.items():
        try:
            mono, cps, cns = read_std_curve(fname)
        except Exception as e:  # noqa
            ck.broken.append({"step": "standard thickness curve data", "what": f"{fname}: {e!r}"[:300]})
            continue
        cts = [n / mono * MONOLAYER_NM for n in cns]
        curves[tname] = (cps, cts)
        # interleaved calls of the two curves (the library keeps loaded interpolators in a module-level dict)
    order = [t for t in curves for _ in range(2)]
    rng.shuffle(order)
    for tname in order:
        fname, fn_name = STD_CURVES[tname]
        cps, cts = curves[tname]
        mono, _, cns = read_std_curve(fname)
        xs = [rng.uniform(0.0, 1.0) for _ in range(ck.n(12, 40))] + [logu(rng, 1e-8, 1e-2) for _ in range(4)] + rng.sample(cps, 4) + [cps[0] * 0.5, cps[0], cps[-1], (1 + cps[-1]) / 2]
        fn = getattr(mt, fn_name, None)
        try:
            got = [float(v) for v in np.atleast_1d(fn(np.array(xs)))] if fn else None
            got_named = [float(v) for v in np.atleast_1d(mt.get_thickness_model(tname)(np.array(xs)))]
        except Exception as e:  # noqa
            ck.fail_case({"clause": "tabulated thickness model raises", "thickness": tname, "error": type(e).__name__}, {"pressures": xs[:6], "error": repr(e)[:200]})
            continue
        want = [interp_curve(cps, cts, x) for x in xs]
        for which, arr in (("function " + fn_name, got), ("thickness_model name", got_named)):
            if arr is None:
                continue
            ck.count(("tab", tname, which, tuple(xs[:3])), bucket="oracle:tabulated thickness " + fn_name)
            bad = [(x, a, w) for x, a, w in zip(xs, arr, want) if not (abs(a - w) <= 1e-11 * max(abs(w), 1e-3))]
            if bad:
                ck.fail_case({"clause": "tabulated thickness is not the interpolated standard isotherm (t = n / n_m * 0.354 nm, 0 below, last value above)", "thickness": tname, "via": which},
                             {"pressure": bad[0][0], "got": bad[0][1], "expected": bad[0][2], "file": fname, "n_bad": len(bad)})
        slines.append(f"tcurve {q(mono)} {qlist(cps)} {qlist(cns)} {qlist(xs)}")
        splan.append(("tcurve", (tname, xs, got_named)))

    # ------------------------------------------------------------------ 2. recurrence correspondence: ℚ model vs the three real functions
    def table_fn(ps, vals):
        tab = {float(p): float(v) for p, v in zip(ps, vals)}
        return lambda arr: np.array([tab[float(x)] for x in np.atleast_1d(arr)])

    worst = {}

    def note(k, v):
        worst[k] = max(worst.get(k, 0.0), v)
        return v

    for i in range(N):
        n = rng.choice([2, 3, 4, 6, 10, 16])
        ps = sorted({round(rng.uniform(0.05, 0.99), 6) for _ in range(n)})
        n = len(ps)
        if n < 2:
            continue
        zero_t = rng.random() < 0.3
        thick = [0.0] * n if zero_t else sorted(rng.uniform(0.2, 2.0) for _ in range(n))
        kel = sorted(rng.uniform(0.5, 20.0) for _ in range(n))
        in_domain = rng.random() < 0.8
        vol = sorted(rng.uniform(0, 1.0) for _ in range(n)) if in_domain else [rng.uniform(0, 1) for _ in range(n)]
        # near-coincident readings: consecutive pressures / model values 1e-12 … 1e-4 relative apart, with and without uptake
        # (and with and without a change of the layer thickness) between them
        close = []
        if rng.random() < 0.4:
            for _ in range(rng.choice([1, 1, 2])):
                j = rng.randrange(n - 1)
                d = logu(rng, 1e-12, 1e-4)
                pn, kn = ps[j] * (1 + d), kel[j] * (1 + d * rng.uniform(0.3, 3))
                tn = thick[j] if zero_t or rng.random() < 0.3 else thick[j] * (1 + d * rng.uniform(0.1, 1))
                if not (pn < 1 and (j + 2 >= n or (pn < ps[j + 2] and kn < kel[j + 2] and tn <= thick[j + 2]))):
                    continue
                ps[j + 1], kel[j + 1], thick[j + 1] = pn, kn, tn
                if rng.random() < 0.4:
                    vol[j + 1] = vol[j]                                         # no uptake between the two readings
                close.append(j)
            in_domain = in_domain and all(a < b for a, b in zip(ps[:-1], ps[1:])) and all(a < b for a, b in zip(kel[:-1], kel[1:]))
        method = rng.choice(["pygaps-DH", "pygaps-DH", "BJH", "DH"])
        geo = rng.choice(["slit", "cylinder", "sphere"]) if method == "pygaps-DH" else rng.choice(["cylinder", "cylinder", "slit"])
        fn = {"pygaps-DH": pm.psd_pygapsdh, "BJH": pm.psd_bjh, "DH": pm.psd_dollimore_heal}[method]
        try:
            r = fn(np.array(vol), np.array(ps), geo, table_fn(ps, thick), table_fn(ps, kel))
            got = ("ok", r)
        except ParameterError:
            got = ("refused", None)
        lines.append(f"meso {method} {geo} {qlist(vol)} {qlist(thick)} {qlist(kel)}")
        plan.append(("meso", (method, geo, vol, thick, kel, got)))
        ck.count(("rec", method, geo, n, zero_t, i), bucket=f"recurrence:{method}:{geo}:{'zero-t' if zero_t else 't>0'}" + (":close" if close else ""),
                 sample={"method": method, "geometry": geo, "n": n} if i % 60 == 0 else None)
        # the property clauses on the raw function itself (an entry point of its own): the thickness / Kelvin models are the tables,
        # so every width is known exactly and the clauses hold to rounding at ANY spacing of the readings
        if got[0] != "ok" or not in_domain:
            continue
        sig = {"entry": "raw function", "method": method, "geometry": geo, "thickness": "zero thickness" if zero_t else "table"}
        detail = {"volume_adsorbed": vol, "relative_pressure": ps, "thickness_at_the_pressures": thick, "kelvin_radius_at_the_pressures": kel,
                  "closest_consecutive_pressures_relative": min(b / a - 1 for a, b in zip(ps[:-1], ps[1:]))}
        widths, vols, dist = (np.asarray(r[k], dtype=float) for k in ("pore_widths", "pore_volumes", "pore_distribution"))
        ck.count(("raw", method, geo, n, zero_t, bool(close), i), bucket=f"oracle:raw {method}:{geo}:{'zero-t' if zero_t else 't>0'}" + (":close" if close else ""))
        w_full = [2 * (t + k) for t, k in zip(thick, kel)]
        if not (len(widths) == len(vols) == len(dist) == n - 1):
            ck.fail_case({**sig, "clause": "result arrays do not have one entry per pressure interval"}, {**detail, "lengths": [len(widths), len(vols), len(dist)]})
            continue
        if note("raw width", max(relerr(a, b) for a, b in zip(widths, w_full[:-1]))) > 1e-12:
            ck.fail_case({**sig, "clause": "pore widths are not twice (Kelvin radius + thickness) at the measured pressures"}, {**detail, "got": widths[:6].tolist(), "expected": w_full[:6]})
            continue
        dwr = np.diff(np.asarray(w_full))
        scale = max(float(np.max(np.abs(vols))), 1e-300)
        bad = [j for j in range(n - 1) if not abs(dist[j] * dwr[j] - vols[j]) <= 1e-12 * abs(vols[j]) + 1e-300]
        note("raw dist*dw-vol (per entry)", max(abs(dist[j] * dwr[j] - vols[j]) / max(abs(vols[j]), 1e-300) for j in range(n - 1)))
        if bad:
            j = bad[0]
            ck.fail_case({**sig, "clause": "distribution times width increments differs from the pore volumes"},
                         {**detail, "interval": j, "width_increment": float(dwr[j]), "distribution": float(dist[j]), "product": float(dist[j] * dwr[j]), "pore_volume": float(vols[j])})
        if zero_t:
            dv = np.diff(np.asarray(vol))
            if note("raw zero-t volumes", float(np.max(np.abs(vols - dv))) / max(float(np.max(np.abs(dv))), 1e-300)) > 1e-9:
                ck.fail_case({**sig, "clause": "zero thickness: pore volumes are not the successive changes of adsorbed liquid volume"}, {**detail, "got": vols[:6].tolist(), "expected": dv[:6].tolist()})
            if abs(float(np.sum(vols)) - (vol[-1] - vol[0])) > 1e-9 * max(abs(vol[-1] - vol[0]), scale):
                ck.fail_case({**sig, "clause": "zero thickness: pore volumes do not sum to the total change"}, {**detail, "sum": float(np.sum(vols)), "expected": vol[-1] - vol[0]})

    # ------------------------------------------------------------------ 3. property oracle on psd_mesoporous (isotherm entry point), as ONE session
    # Every analysis must satisfy the property's equations for the property set / thickness model / Kelvin model / data that are current
    # at the time of the call, whatever was analysed before under the same names.
    from pygaps.core.adsorbate import Adsorbate
    from pygaps.data import ADSORBATE_LIST

    objs = []            # model object id -> {"obj": Adsorbate, "name", "props": my own record of its current property set, "log": what happened to it}
    registered = {}      # user name -> object id of the instance that is in ADSORBATE_LIST (first of that name)
    name_log = {n: [] for n in USER_NAMES}   # per name: the property sets it has had in this process (for the replay detail)
    kept = []            # isotherms kept alive for later re-analysis: dict(iso, obj id, model iso index, data …)
    n_iso_model = [0]
    last_data = [None]

    def rand_props():
        M, rho, gamma = rng.uniform(2, 150), rng.uniform(0.3, 2), rng.uniform(1, 40)
        return {"molar_mass": M, "liquid_density": rho, "surface_tension": gamma, "liquid_molar_density": rho / M}

    def props_tokens(pr):
        return f"{q(pr['molar_mass'])} {q(pr['liquid_density'])} {q(pr['surface_tension'])} {q(pr['liquid_molar_density'])}"

    def create(name, store):
        pr = rand_props()
        p0 = logu(rng, 2e3, 5e6)                                # Pa, a literal of the object (no thermodynamic backend); not part of the model's property set
        obj = Adsorbate(name, store=store, saturation_pressure=p0, **dict(pr))
        objs.append({"obj": obj, "name": name, "props": pr, "p0": p0})
        oid = len(objs) - 1
        was = name in registered
        if store and not was:
            registered[name] = oid
        name_log[name].append(("created and stored" if store and not was else "created, NOT stored (name already in the list)" if store else "created", dict(pr)))
        slines.append(f"create {name} {props_tokens(pr)} {'T' if store else 'F'}")
        splan.append(("done", oid))
        return oid

    def unregister(name):
        for old in [a for a in ADSORBATE_LIST if isinstance(a, Adsorbate) and a.name == name]:
            ADSORBATE_LIST.remove(old)
        registered.pop(name, None)
        slines.append(f"unregister {name}")
        splan.append(("done", 0))

    def edit(oid):
        rec = objs[oid]
        pr = dict(rec["props"])
        new = rand_props()
        which = rng.choice([["surface_tension"], ["liquid_density"], ["molar_mass"], ["surface_tension", "liquid_density", "molar_mass"]])
        for k in which:
            pr[k] = new[k]
        pr["liquid_molar_density"] = pr["liquid_density"] / pr["molar_mass"]
        for k, v in pr.items():
            rec["obj"].properties[k] = v            # in place, the object stays the same
        rec["props"] = pr
        name_log[rec["name"]].append(("edited in place: " + ",".join(which), dict(pr)))
        slines.append(f"edit {oid} {props_tokens(pr)}")
        splan.append(("done", oid))

    def user_thickness(a, b):
        def thickness(pressure):                     # every user thickness function has the same __name__
            return a * (-1.0 / np.log(pressure)) ** b
        return thickness, (lambda p: a * (-1.0 / math.log(p)) ** b)

    def user_kelvin(scale, shift):
        def kelvin(pressure, meniscus_geometry, temperature, liquid_density, adsorbate_molar_mass, adsorbate_surface_tension):   # same __name__ every time
            return scale * mk.kelvin_radius(pressure, meniscus_geometry, temperature, liquid_density, adsorbate_molar_mass, adsorbate_surface_tension) + shift
        return kelvin

    def gen_data():
        n = rng.choice([6, 10, 20, 40, 80])
        base = {rng.uniform(0.02, 0.995) for _ in range(n)} | ({1 - logu(rng, 1e-6, 4e-3)} if rng.random() < 0.3 else set())
        if rng.random() < 0.25:
            base |= set(rng.choice([[0.1], [0.99], [0.1, 0.99]]))               # readings exactly ON the default limits
        ps = sorted(base)
        # near-coincident readings: a reading repeated 1e-12 … 1e-4 relative above itself (pairs, sometimes a cluster of three)
        close = set()
        if rng.random() < 0.4:
            for _ in range(rng.choice([1, 1, 2, 3])):
                j = rng.randrange(len(ps))
                for _ in range(rng.choice([1, 1, 1, 2])):
                    pn = ps[j] * (1 + logu(rng, 1e-12, 1e-4))
                    if pn >= 0.9999995 or pn in ps or (j + 1 < len(ps) and pn >= ps[j + 1]):
                        break
                    ps.insert(j + 1, pn)
                    close = {c + 1 if c > j else c for c in close} | {j}
                    j += 1
        n = len(ps)
        step_case = rng.random() < 0.25
        j0 = None
        if step_case:
            j0 = rng.randrange(1, n - 1)
            if close and rng.random() < 0.6:
                j0 = rng.choice(sorted(close))                                   # the whole condensation step between two near-coincident readings
                j0 = min(max(j0, 0), n - 2)
            base, jump = rng.uniform(0.5, 5), rng.uniform(1, 20)
            load = [base if j <= j0 else base + jump for j in range(n)]
        else:
            inc = [rng.uniform(0, 1) ** 3 * rng.uniform(0.01, 3) for _ in range(n)]
            for c in close:
                if rng.random() < 0.4:
                    inc[c + 1] = 0.0                                            # no uptake between the two readings
            load = list(np.cumsum(inc) + rng.uniform(0, 2))
        return {"ps": ps, "load": [float(x) for x in load], "branch": rng.choice(["ads", "des"]), "step_case": step_case, "j0": j0, "close": sorted(close)}

    def gen_limits(ps):
        """p_limits: None (defaults), free values, and values EXACTLY equal to measured pressures (lower, upper, both, first / last point,
        neighbouring points, twice the same point)"""
        n = len(ps)
        if rng.random() < 0.35:
            return None, ""
        free_lo = lambda: rng.choice([None, 0, rng.uniform(0.02, 0.5)])      # noqa
        free_hi = lambda: rng.choice([None, rng.uniform(0.5, 0.999)])        # noqa
        if rng.random() < 0.5:
            return (free_lo(), free_hi()), ""
        mode = rng.choice(["upper", "upper", "lower", "both", "both", "neighbours", "last", "first", "same"])
        i, j = sorted((rng.randrange(n), rng.randrange(n)))
        if mode == "upper":
            return (free_lo(), ps[max(j, min(3, n - 1))]), "upper limit on a reading"
        if mode == "lower":
            return (ps[min(i, max(0, n - 3))], free_hi()), "lower limit on a reading"
        if mode == "both":
            return (ps[i], ps[j]), "both limits on readings"
        if mode == "neighbours":
            return (ps[i], ps[min(i + rng.choice([1, 2, 3, 4]), n - 1)]), "limits on neighbouring readings"
        if mode == "last":
            return (rng.choice([None, 0, ps[0], ps[min(i, max(0, n - 4))], rng.uniform(0.02, 0.5)]), ps[-1]), "upper limit on the last reading"
        if mode == "first":
            return (ps[0], rng.choice([None, ps[-1], ps[j], rng.uniform(0.5, 0.999)])), "lower limit on the first reading"
        return (ps[i], ps[i]), "both limits on the same reading"

    def build_iso(ads_name, T, data, basis, M, t_unit="K"):
        n = len(data["ps"])
        pa, la = np.array(data["ps"]), np.array(data["load"])
        if basis == "mass":
            la = la * M                                                     # mmol/g -> mg/g with the molar mass of the moment: from now on the DATA of this isotherm
        if data["branch"] == "des":
            # full loop: adsorption up (lower curve), desorption down along `load`
            p_all = np.concatenate([pa, pa[::-1]])
            l_all = np.concatenate([la * 0.9, la[::-1]])
            br = [0] * n + [1] * n
        else:
            p_all, l_all, br = pa, la, [0] * n
        return pg.PointIsotherm(pressure=p_all, loading=l_all, branch=br, material=rng.choice(["pgv-synth", "pgv-synth", "pgv-other"]), adsorbate=ads_name,
                                pressure_mode="relative", pressure_unit=None, loading_basis=basis, loading_unit="mmol" if basis == "molar" else "mg",
                                material_basis="mass", material_unit="g", **stored_temperature(T, t_unit))

    def stored_temperature(T, t_unit):
        """the same physical temperature as the number the isotherm stores in `t_unit`"""
        return {"temperature": T if t_unit == "K" else T - CELSIUS, "temperature_unit": t_unit}

    def gen_representation(base_basis, main_t_unit):
        """another stored representation of the same physical isotherm: every dimension changes with probability 1/2, at least one does"""
        while True:
            rep = {"t_unit": rng.choice(["K", "°C"]),
                   "pressure": rng.choice([("relative", None)] * 3 + [("relative%", None)] + [("absolute", u) for u in rng.sample(sorted(U_PRESSURE), 2)]),
                   "loading": rng.choice([(base_basis, "mmol" if base_basis == "molar" else "mg")] * 3 + [("molar", u) for u in U_MOLAR] + [("mass", u) for u in U_MASS] + [("volume_liquid", "cm3")]),
                   "material_unit": rng.choice(["g", "g", "kg", "mg"])}
            only = rng.choice([None, None, None, "temperature", "temperature", "pressure", "loading", "material"])     # often ONE dimension alone, so that a failure names it
            if only:
                base = {"t_unit": main_t_unit, "pressure": ("relative", None), "loading": (base_basis, "mmol" if base_basis == "molar" else "mg"), "material_unit": "g"}
                keep = {"temperature": "t_unit", "pressure": "pressure", "loading": "loading", "material": "material_unit"}[only]
                rep = {k: (v if k == keep else base[k]) for k, v in rep.items()}
                if only == "temperature":
                    rep["t_unit"] = "°C" if main_t_unit == "K" else "K"
            changed = [k for k, same in (("temperature", rep["t_unit"] == main_t_unit), ("pressure", rep["pressure"] == ("relative", None)),
                                         ("loading", rep["loading"] == (base_basis, "mmol" if base_basis == "molar" else "mg")), ("material", rep["material_unit"] == "g")) if not same]
            if changed:
                rep["changed"] = changed
                rep["route"] = rng.choice(["constructed", "constructed", "converted"])
                return rep

    def build_twin(ads_name, T, data, basis, stored, M, rho, p0, rep):
        """the isotherm `stored` (mmol/g or mg/g at relative pressure, K) once more, stored as `rep` says: either constructed from numbers
        converted HERE (independent unit arithmetic), or constructed like the original and converted by the isotherm's own convert_* methods"""
        n = len(data["ps"])
        ps, amounts = np.array(data["ps"]), np.array(stored)
        (pm, pu), (lb, lu), mu, tu = rep["pressure"], rep["loading"], rep["material_unit"], rep["t_unit"]
        converted = rep["route"] == "converted"
        if not converted:
            mol = amounts * 1e-3 / (M if basis == "mass" else 1.0)                       # mol/g
            amounts = (mol / U_MOLAR[lu] if lb == "molar" else mol * M / U_MASS[lu] if lb == "mass" else mol * M / rho) * U_MASS[mu]
            ps = ps * 100 if pm == "relative%" else ps * p0 / U_PRESSURE[pu] if pm == "absolute" else ps
        if data["branch"] == "des":
            p_all, l_all, br = np.concatenate([ps, ps[::-1]]), np.concatenate([amounts * 0.9, amounts[::-1]]), [0] * n + [1] * n
        else:
            p_all, l_all, br = ps, amounts, [0] * n
        if not converted:
            return pg.PointIsotherm(pressure=p_all, loading=l_all, branch=br, material="pgv-twin", adsorbate=ads_name, pressure_mode=pm, pressure_unit=pu,
                                    loading_basis=lb, loading_unit=lu, material_basis="mass", material_unit=mu, **stored_temperature(T, tu))
        twin = pg.PointIsotherm(pressure=p_all, loading=l_all, branch=br, material="pgv-twin", adsorbate=ads_name, temperature=T, temperature_unit="K", pressure_mode="relative", pressure_unit=None,
                                loading_basis=basis, loading_unit="mmol" if basis == "molar" else "mg", material_basis="mass", material_unit="g")
        steps = [k for k, same in (("temperature", tu == "K"), ("pressure", (pm, pu) == ("relative", None)), ("loading", (lb, lu) == (basis, "mmol" if basis == "molar" else "mg")), ("material", mu == "g")) if not same]
        rng.shuffle(steps)
        for k in steps:
            if k == "temperature":
                twin.convert_temperature(unit_to=tu)
            elif k == "pressure":
                twin.convert_pressure(mode_to=pm, unit_to=pu)
            elif k == "loading":
                twin.convert_loading(basis_to=lb, unit_to=lu)
            else:
                twin.convert_material(basis_to="mass", unit_to=mu)
        return twin

    def twin_oracle(i, iso, outcome, r, sig, detail, call, ads_name, T, data, basis, stored, M, rho, p0, tie, close, main_t_unit):
        """representation invariance of the entry point: the SAME physical isotherm stored in other units (temperature in °C, absolute
        pressure in any unit / relative %, loading in other molar / mass / liquid-volume units, material in kg / mg) gives the same
        refusal, the same points, the same widths, and volumes that differ by the material unit only"""
        rep = gen_representation(basis, main_t_unit)
        what = "+".join(rep["changed"])
        tsig = {**sig, "stored_representation_changed": what, "route": rep["route"]}
        tdet = {**detail, "twin_stored_representation": {"temperature_unit": rep["t_unit"], "pressure": list(rep["pressure"]), "loading": list(rep["loading"]), "material_unit": rep["material_unit"],
                                                        "built": rep["route"], "saturation_pressure_Pa": p0}}
        try:
            twin = build_twin(ads_name, T, data, basis, stored, M, rho, p0, rep)
        except Exception as e:  # noqa
            ck.fail_case({**tsig, "clause": "the isotherm cannot be stored in this representation", "error": type(e).__name__}, {**tdet, "error": repr(e)[:200]})
            return
        ck.count(("twin", what, rep["route"], outcome, i), bucket="oracle:twin representation:" + what + (":" + rep["route"] if rep["route"] != "constructed" else ""))
        if relerr(twin.temperature, T) > 1e-12:
            ck.fail_case({**tsig, "clause": "isotherm.temperature of the twin is not the physical temperature in kelvin"}, {**tdet, "got": float(twin.temperature), "expected": T})
            return
        p_moved = "pressure" in rep["changed"] and (tie or close)         # rounding of p -> p·p0/unit -> p may move a reading across a limit it sits on
        try:
            r2 = call(twin)
        except CalculationError:
            if outcome == "ok" and not p_moved:
                ck.fail_case({**tsig, "clause": "the same isotherm in another stored representation is refused"}, tdet)
            return
        except Exception as e:  # noqa
            ck.fail_case({**tsig, "clause": "psd_mesoporous raises a non-pyGAPS error on another stored representation", "error": type(e).__name__}, {**tdet, "error": repr(e)[:200]})
            return
        if outcome != "ok":
            if not p_moved:
                ck.fail_case({**tsig, "clause": "a refused isotherm is analysed in another stored representation"}, tdet)
            return
        lim1, lim2 = (int(r["limits"][0]), int(r["limits"][1])), (int(r2["limits"][0]), int(r2["limits"][1]))
        if lim1 != lim2:
            if not p_moved:
                ck.fail_case({**tsig, "clause": "points used depend on the stored representation"}, {**tdet, "used_twin": list(lim2)})
            return
        pu_ = data["ps"][lim1[0]:lim1[1] + 1]
        f = U_MASS[rep["material_unit"]]                                   # per g -> per stored material unit
        arr = lambda res, k, g=1.0: np.asarray(res[k], dtype=float) / g    # noqa
        w1, w2 = arr(r, "pore_widths"), arr(r2, "pore_widths")
        if len(w1) != len(w2):
            ck.fail_case({**tsig, "clause": "result arrays depend on the stored representation"}, {**tdet, "lengths": [len(w1), len(w2)]})
            return
        # a relative pressure that went through p·p0/unit and back carries one or two roundings: ln p moves by ~eps / |ln p|
        wtol = [1e-9 + 16 * EPS / abs(math.log(p)) for p in pu_[:len(w1)]]
        e = max(relerr(x, y) / t for x, y, t in zip(w2, w1, wtol))
        note("twin widths (units of the tolerance)", e)
        if not e <= 1.0:
            j = max(range(len(w1)), key=lambda j: relerr(w2[j], w1[j]) / wtol[j])
            ck.fail_case({**tsig, "clause": "pore widths depend on the stored representation of the isotherm"},
                         {**tdet, "interval": j, "width_twin": float(w2[j]), "width": float(w1[j]), "widths_twin": w2[:5].tolist(), "widths": w1[:5].tolist(),
                          "twin_temperature_stored": float(twin._temperature) if hasattr(twin, "_temperature") else None})
            return
        vtol = 1e-8 + 64 * max(t - 1e-9 for t in wtol)
        for k, g in (("pore_volumes", f), ("pore_volume_cumulative", f), ("pore_areas", f)):
            x1, x2 = arr(r, k), arr(r2, k, g)
            sc = max(float(np.max(np.abs(x1))), 1e-300)
            if close and k != "pore_volume_cumulative" and "pressure" in rep["changed"]:
                continue                                                    # increments of near-coincident radii are not comparable after a round trip of the pressures
            e = float(np.max(np.abs(x1 - x2))) / sc
            note("twin " + k, e)
            if not e <= vtol:
                j = int(np.argmax(np.abs(x1 - x2)))
                ck.fail_case({**tsig, "clause": k + " depend on the stored representation of the isotherm (beyond the material unit)"},
                             {**tdet, "interval": j, "twin_per_g": float(x2[j]), "original_per_g": float(x1[j]), "material_unit_factor": g})
                return
        if not close:
            # distribution [cm3 / material unit / nm], relative to its largest entry, conditioning of the width increments allowed for
            d1, d2 = arr(r, "pore_distribution"), arr(r2, "pore_distribution", f)
            cond = cond_terms(list(w1) + [float(w1[-1])])[:len(d1)] if len(w1) > 1 else [0.0] * len(d1)
            sc = max(float(np.max(np.abs(d1))), 1e-300)
            bad = [j for j in range(len(d1) - 1) if not abs(d1[j] - d2[j]) <= (vtol + COND * cond[j] + 64 * (wtol[j] - 1e-9) * (abs(w1[j]) + abs(w1[j + 1])) / max(abs(w1[j + 1] - w1[j]), 1e-300)) * max(sc, abs(d1[j]))]
            if bad:
                j = bad[0]
                ck.fail_case({**tsig, "clause": "pore distribution depends on the stored representation of the isotherm (beyond the material unit)"},
                             {**tdet, "interval": j, "twin_per_g": float(d2[j]), "original_per_g": float(d1[j])})

    for i in range(N):
        # ---------------------------------------------------------------- which isotherm: re-analysis of a kept one, a built-in adsorbate, a user-defined one
        u = rng.random()
        action = "new"
        if kept and u < 0.2:
            k = rng.choice(kept)
            iso, oid, iso_idx, data, T, ads_name, basis, stored = k["iso"], k["oid"], k["iso_idx"], k["data"], k["T"], k["name"], k["basis"], k["stored"]
            t_unit = k["t_unit"]
            if oid is not None and rng.random() < 0.6:
                edit(oid)                                                   # the object the old isotherm holds changes under it
                action = "kept isotherm, its adsorbate edited in place since"
            else:
                action = "kept isotherm analysed again"
            kind = "user" if oid is not None else "builtin"
        elif u < 0.5:
            kind, oid, iso_idx, basis = "builtin", None, None, "molar"
            ads_name = rng.choice(["N2", "N2", "Ar", "CO2"])
            T = {"N2": 77.355, "Ar": 87.3, "CO2": rng.choice([195.0, 273.15])}[ads_name]
            data = last_data[0] if last_data[0] is not None and rng.random() < 0.2 else gen_data()
            iso = None
        else:
            kind, iso_idx = "user", None
            ads_name = rng.choice(USER_NAMES)
            T = rng.choice(USER_TEMPS + USER_TEMPS + [round(rng.uniform(60, 320), 2), CELSIUS])      # 273.15 K: the stored number is 0 in °C
            if ads_name not in registered:
                create(ads_name, True)
                action = "adsorbate created and stored"
            else:
                v = rng.random()
                if v < 0.25:
                    action = "adsorbate unchanged"
                elif v < 0.6:
                    unregister(ads_name)
                    create(ads_name, True)
                    action = "adsorbate re-registered under the same name with another property set"
                elif v < 0.9:
                    edit(registered[ads_name])
                    action = "adsorbate properties edited in place"
                else:
                    create(ads_name, True)                                  # not stored: the list keeps the first object of that name
                    action = "second object of the same name created (the list keeps the first)"
            oid = registered[ads_name]
            basis = "mass" if rng.random() < 0.25 else "molar"
            data = last_data[0] if last_data[0] is not None and rng.random() < 0.35 else gen_data()     # same data, same name, other properties
            iso = None
        last_data[0] = data
        if kind == "builtin":
            ads = Adsorbate.find(ads_name)
            try:
                M, rho, gamma, p0 = ads.molar_mass(), ads.liquid_density(T), ads.surface_tension(T), ads.saturation_pressure(T)
            except Exception:
                continue
        else:
            pr = objs[oid]["props"]
            M, rho, gamma, p0 = pr["molar_mass"], pr["liquid_density"], pr["surface_tension"], objs[oid]["p0"]
        ps, load, branch, step_case, j0 = data["ps"], data["load"], data["branch"], data["step_case"], data["j0"]
        n = len(ps)
        if iso is None:
            t_unit = "°C" if rng.random() < 0.3 else "K"                    # the number the isotherm stores for the same physical temperature
            try:
                iso = build_iso(ads_name, T, data, basis, M, t_unit)
            except Exception as e:  # noqa
                ck.broken.append({"step": "harness: building the isotherm", "what": repr(e)[:300]})
                continue
            if kind == "user":
                held = next((j for j, rec in enumerate(objs) if rec["obj"] is iso.adsorbate), None)
                slines.append(f"iso {ads_name} {q(T)} {basis} {qplist(ps)} {qlist([x * M for x in load] if basis == 'mass' else load)}")
                splan.append(("done", held))
                iso_idx = n_iso_model[0]
                n_iso_model[0] += 1
                if held != oid:
                    ck.broken.append({"step": "harness bookkeeping of the adsorbate list", "what": f"isotherm of {ads_name} holds object {held}, expected {oid}"})
                    continue
            stored = [x * M for x in load] if basis == "mass" else list(load)         # what the isotherm holds (mg/g or mmol/g): fixed from now on
            if rng.random() < 0.35 and len(kept) < 12:
                kept.append({"iso": iso, "oid": oid, "iso_idx": iso_idx, "data": data, "T": T, "name": ads_name, "basis": basis, "stored": stored, "t_unit": t_unit})
        if t_unit != "K":
            ck.count(("stored-T", t_unit, i), nontrivial=False, bucket="session:temperature stored in " + t_unit + (" (the number 0)" if T == CELSIUS else ""))
        ck.count(("session", action, i), nontrivial=False, bucket="session:" + kind + ":" + action)

        # ---------------------------------------------------------------- the call
        method = rng.choice(["pygaps-DH", "pygaps-DH", "BJH", "DH"])
        geo = rng.choice(["slit", "cylinder", "sphere"]) if method == "pygaps-DH" else "cylinder"
        men = rng.choice([None, None, "hemicylindrical", "cylindrical", "hemispherical"])
        mg = men or MENISCUS[(branch, geo)]
        tname = rng.choice(["zero thickness", "zero thickness", "Halsey", "Harkins/Jura"] + list(curves) + ["user callable"])
        if tname == "user callable":
            ta, tb = rng.uniform(0.2, 0.6), rng.uniform(0.2, 0.4)
            targ, tfun = user_thickness(ta, tb)
            tdesc = {"user thickness function": f"t(p) = {ta!r} * (-1/ln p) ** {tb!r}"}
        elif tname in curves:
            targ, tfun = tname, (lambda p, c=curves[tname]: interp_curve(c[0], c[1], p))
            tdesc = {}
        else:
            targ = tname
            tfun = {"zero thickness": lambda p: 0.0, "Halsey": lambda p: float(mt.thickness_halsey(p)), "Harkins/Jura": lambda p: float(mt.thickness_harkins_jura(p))}[tname]
            tdesc = {}
        kv = rng.random()
        if kv < 0.12 and mg == "cylindrical":
            kname, karg, kfun = "Kelvin-KJS", "Kelvin-KJS", (lambda p: kelvin_si(p, 1.0, T, rho, M, gamma) + 0.3)
            kdesc = {}
        elif kv < 0.24:
            ks, kd = rng.uniform(0.8, 1.25), rng.uniform(0.0, 0.5)
            kname, karg, kfun = "user callable", user_kelvin(ks, kd), (lambda p: ks * kelvin_si(p, FACTOR[mg], T, rho, M, gamma) + kd)
            kdesc = {"user Kelvin function": f"r(p) = {ks!r} * kelvin_radius(p, …arguments passed by psd_mesoporous…) + {kd!r}"}
        else:
            kname, karg, kfun = "Kelvin", "Kelvin", (lambda p: kelvin_si(p, FACTOR[mg], T, rho, M, gamma))
            kdesc = {}
        lim, tie = gen_limits(ps)
        if lim is None and (0.1 in ps or 0.99 in ps):
            tie = "default limits on readings"
        close = data.get("close", [])
        sig = {"method": method, "geometry": geo, "thickness": tname}
        if kname != "Kelvin":
            sig["kelvin_model"] = kname
        if kind == "user":
            sig["adsorbate"] = "user-defined"
        ck.count(("psd", method, geo, men, tname, kname, branch, n, i), bucket=f"oracle:{method}:{geo}:{tname}:{branch}" + (":step" if step_case else "") + ("" if kname == "Kelvin" else ":" + kname) + (":close" if close else "") + (":tie" if tie else ""),
                 sample={"method": method, "geometry": geo, "meniscus": men, "thickness": tname, "kelvin": kname, "branch": branch, "n": n, "limits": lim, "adsorbate": kind} if i % 40 == 0 else None)
        lo, hi = (0.1, 0.99) if lim is None else lim
        sel_strict = [j for j, p in enumerate(ps) if (not lo or p > lo) and (not hi or p < hi)]
        sel_loose = [j for j, p in enumerate(ps) if (not lo or p >= lo) and (not hi or p <= hi)]
        if tie:
            ck.count(("tie", tie, i), nontrivial=False, bucket="limits:" + tie)
        model_ok = kind == "user" and kname != "user callable" and n <= 40 and (i % 2 == 0 or bool(tie) or bool(close))
        win_line = f"win meso {'N' if lim is None else 'L'} {qp(None if lim is None else lim[0])} {qp(None if lim is None else lim[1])} {qplist(ps)} []"
        detail = {"adsorbate": ads_name, "T": T, "temperature_as_stored": stored_temperature(T, t_unit), "pressure": ps, "loading_mmol_g_when_the_isotherm_was_built": load, "loading_basis_of_the_isotherm": basis, "amounts_held_by_the_isotherm": stored, "branch": branch, "meniscus": men, "limits": lim,
                  "kelvin_model": kname, "session_step": i, "what_happened_before_this_call": action, **tdesc, **kdesc}
        if tie:
            detail["limits_coincide_with_readings"] = tie
        if close:
            detail["near_coincident_readings"] = [{"index": c, "pressures": [ps[c], ps[c + 1]], "relative_distance": ps[c + 1] / ps[c] - 1, "loadings": [load[c], load[c + 1]]} for c in close[:4]]
        if kind == "user":
            detail["adsorbate_properties_now"] = dict(objs[oid]["props"])
            detail["history_of_this_adsorbate_name_in_the_process"] = [{"event": e, "properties": p_} for e, p_ in name_log[ads_name][-6:]]

        def model_line():
            thick_arr = [tfun(p) for p in ps]
            lnp = [float(np.log(p)) for p in ps]
            return (f"analyse {iso_idx} {method} {geo} {q(FACTOR[mg])} {'J' if kname == 'Kelvin-KJS' else 'K'} {'N' if lim is None else 'L'} "
                    f"{qp(None if lim is None else lim[0])} {qp(None if lim is None else lim[1])} {qlist(thick_arr)} {qlist(lnp)}")

        call = lambda x: pgc.psd_mesoporous(x, psd_model=method, pore_geometry=geo, meniscus_geometry=men, branch=branch, thickness_model=targ, kelvin_model=karg, p_limits=lim)   # noqa
        # the twin is built BY NAME: only when the name still resolves to the object this isotherm holds
        do_twin = rng.random() < 0.5 and (kind == "builtin" or registered.get(ads_name) == oid)
        twin_args = (ads_name, T, data, basis, stored, M, rho, p0, tie, close, t_unit)
        try:
            r = call(iso)
        except CalculationError:
            if do_twin:
                twin_oracle(i, iso, "refused", None, sig, detail, call, *twin_args)
            if len(sel_strict) >= 3:
                ck.fail_case({**sig, "clause": "refused although three or more points lie strictly inside the limits"}, detail)
            else:
                if model_ok:
                    slines.append(model_line())
                    splan.append(("refused", None))
                if tie:
                    lines.append(win_line)                                      # the window convention at ties: the model refuses as well
                    plan.append(("win", None))
            continue
        except Exception as e:  # noqa
            ck.fail_case({**sig, "clause": "psd_mesoporous raises a non-pyGAPS error", "error": type(e).__name__}, {**detail, "error": repr(e)[:200]})
            continue
        a, b = int(r["limits"][0]), int(r["limits"][1])
        used = list(range(a, b + 1))
        detail["used"] = [a, b]
        if len(sel_loose) < 3 or not (set(sel_strict) <= set(used) <= set(sel_loose)):
            ck.fail_case({**sig, "clause": "points used are not the points inside the pressure limits"}, detail)
            continue
        pu = [ps[j] for j in used]
        # cm3/g of liquid from the amounts the isotherm holds and the property set that is current now
        vliq = [stored[j] * 1e-3 / rho if basis == "mass" else stored[j] * 1e-3 * M / rho for j in used]
        w_exp = [2 * (kfun(p) + tfun(p)) for p in pu]
        widths, vols, dist, cum = (np.asarray(r[k], dtype=float) for k in ("pore_widths", "pore_volumes", "pore_distribution", "pore_volume_cumulative"))
        m = len(pu) - 1
        if not (len(widths) == len(vols) == len(dist) == len(cum) == m):
            ck.fail_case({**sig, "clause": "result arrays do not have one entry per pressure interval"}, {**detail, "lengths": [len(widths), len(vols), len(dist), len(cum)]})
            continue
        # widths: 2 (r_K + t) at the measured pressures, increasing with pressure
        e = max(relerr(w, x) for w, x in zip(widths, w_exp[:m]))
        note("width", e)
        if e > 1e-6:
            ck.fail_case({**sig, "clause": "pore widths are not twice (Kelvin radius + thickness) at the measured pressures", "meniscus": mg}, {**detail, "got": widths[:5].tolist(), "expected": w_exp[:5]})
        if np.any(np.diff(widths) <= 0):
            ck.fail_case({**sig, "clause": "pore widths do not increase with pressure"}, {**detail, "widths": widths.tolist()[:10]})
        # distribution * width increments = volumes, entry by entry, at any spacing of the readings:
        # (a) with the increments of the REPORTED widths (all intervals but the last: the top width is not reported).  The subtraction of
        #     two neighbouring floating-point widths is the one the implementation performs, so this holds to rounding however close they are;
        dw = np.diff(np.asarray(w_exp))
        scale = max(np.max(np.abs(vols)), 1e-300)
        dwr = np.diff(widths)
        if m > 1:
            note("dist*dw-vol (reported widths, per entry)", max(abs(dist[j] * dwr[j] - vols[j]) / max(abs(vols[j]), 1e-300) for j in range(m - 1)))
            bad = [j for j in range(m - 1) if not abs(dist[j] * dwr[j] - vols[j]) <= 1e-12 * abs(vols[j]) + 1e-300]
            if bad:
                j = bad[0]
                ck.fail_case({**sig, "clause": "distribution times width increments differs from the pore volumes"},
                             {**detail, "interval": j, "pressures_of_the_interval": [pu[j], pu[j + 1]], "reported_widths": [float(widths[j]), float(widths[j + 1])],
                              "width_increment": float(dwr[j]), "distribution": float(dist[j]), "product": float(dist[j] * dwr[j]), "pore_volume": float(vols[j])})
        # (b) with the independent widths 2 (r_K + t): relative to the volume scale, the tolerance grows with the conditioning of each increment
        cond = cond_terms(w_exp)
        errs = np.abs(dist * dw - vols) / scale
        e = float(np.max(errs))
        note("dist*dw-vol", max((float(x) for x, c in zip(errs, cond) if c <= 1e-12), default=0.0))       # the well-conditioned intervals: as before
        note("dist*dw-vol in units of eps (w_i + w_i+1) / dw_i", max((float(x) / c for x, c in zip(errs, cond) if c > 1e-12), default=0.0))
        bad = [j for j in range(m) if not errs[j] <= 1e-6 + COND * cond[j]]
        if bad:
            j = bad[0]
            ck.fail_case({**sig, "clause": "distribution times width increments differs from the pore volumes"},
                         {**detail, "worst": e, "interval": j, "pressures_of_the_interval": [pu[j], pu[j + 1]], "expected_widths": [w_exp[j], w_exp[j + 1]],
                          "distribution": float(dist[j]), "product": float(dist[j] * dw[j]), "pore_volume": float(vols[j])})
        # cumulative curve ends at the volume adsorbed at the highest pressure used, and is the running sum
        e = relerr(cum[-1], vliq[-1])
        note("cum-end", e)
        if e > 1e-9:
            ck.fail_case({**sig, "clause": "cumulative curve does not end at the volume adsorbed at the highest pressure used"}, {**detail, "got": float(cum[-1]), "expected": vliq[-1]})
        if float(np.max(np.abs(np.diff(cum) - vols[1:]))) > 1e-9 * max(scale, abs(vliq[-1])):
            ck.fail_case({**sig, "clause": "cumulative curve is not the running sum of the pore volumes"}, detail)
        if tname == "zero thickness":
            dv = np.diff(np.asarray(vliq))
            e = float(np.max(np.abs(vols - dv)) / max(np.max(np.abs(dv)), 1e-300))
            note("zero-t volumes", e)
            if e > 1e-9:
                ck.fail_case({**sig, "clause": "zero thickness: pore volumes are not the successive changes of adsorbed liquid volume"}, {**detail, "got": vols[:6].tolist(), "expected": dv[:6].tolist()})
            if relerr(float(np.sum(vols)), vliq[-1] - vliq[0]) > 1e-9 and abs(vliq[-1] - vliq[0]) > 1e-12:
                ck.fail_case({**sig, "clause": "zero thickness: pore volumes do not sum to the total change"}, {**detail, "sum": float(np.sum(vols)), "expected": vliq[-1] - vliq[0]})
            if step_case and used[0] <= j0 < used[-1]:
                k = j0 - used[0]
                nz = [j for j in range(m) if abs(vols[j]) > 1e-12 * scale]
                if nz != [k]:
                    ck.fail_case({**sig, "clause": "single condensation step does not give a single peak"}, {**detail, "nonzero": nz, "expected": [k]})
                elif not (w_exp[k] * (1 - 1e-9) <= widths[k] <= w_exp[k + 1] * (1 + 1e-9)):
                    ck.fail_case({**sig, "clause": "single peak is not at the Kelvin-predicted width"}, {**detail, "width": float(widths[k]), "bracket": [w_exp[k], w_exp[k + 1]]})
                # … and the DISTRIBUTION has its only non-zero entry there (the step may lie between two near-coincident readings)
                nzd = [j for j in range(m) if abs(dist[j] * dw[j]) > 1e-12 * scale]
                if nzd != [k] or int(np.argmax(dist)) != k:
                    ck.fail_case({**sig, "clause": "single condensation step does not give a single peak of the distribution"},
                                 {**detail, "nonzero_entries_of_the_distribution": nzd, "largest_entry": int(np.argmax(dist)), "expected": [k], "distribution_there": float(dist[k])})
        if do_twin:
            twin_oracle(i, iso, "ok", r, sig, detail, call, *twin_args)
        # the wrapper against the ℚ model on the same arrays (correspondence of the whole pipeline)
        if (i % 3 == 0 or bool(close)) and m <= 40 and kname == "Kelvin":
            thick_arr = [tfun(p) for p in pu]
            kel_arr = [float(x) for x in mk.kelvin_radius(np.array(pu), mg, T, rho, M, gamma)]
            lines.append(f"meso {method} {geo} {qlist(vliq)} {qlist(thick_arr)} {qlist(kel_arr)}")
            plan.append(("wrapper", (method, geo, r)))
        if i % 2 == 0 or tie:
            lines.append(win_line)
            plan.append(("win", (a, b)))
        # the session model: the same call on the model's heap / registry / isotherm (property set looked up by the model itself)
        if model_ok:
            slines.append(model_line())
            splan.append(("analysis", (method, geo, r, a, b)))

    # ------------------------------------------------------------------ correspondence replies
    n_dis = 0
    wq = [0.0]     # worst difference of the distribution against the ℚ models, times the exact increment, in units of eps (w_i + w_i+1) / dw_i
    try:
        replies = ck.drive("Char", lines) if lines else []
    except Exception as e:
        replies = None
        ck.broken.append({"step": "driver Char", "what": str(e)[:600]})
    if replies is not None:
        for (what, data), rep, line in zip(plan, replies, lines):
            t = rep.split()
            ck.count(("corr", what), nontrivial=False, bucket="correspondence:" + what)
            ok = True
            if what == "mg":
                ok = t == ["ok", data]
            elif what == "gf":
                ok = t[0] == "ok" and float(parse_qlist("[" + t[1] + "]")[0]) == FACTOR[line.split()[1]]
            elif what == "win":
                ok = (t == ["refused"]) if data is None else (t[0] == "ok" and (int(t[1]), int(t[2])) == data)
            elif what == "meso":
                method, geo, vol, thick, kel, got = data
                if got[0] == "refused":
                    ok = t[0] == "refused"
                elif t[0] != "ok":
                    ok = False
                else:
                    arrs = [parse_qlist(x) for x in t[1:7]]
                    r = got[1]
                    ok = all(agree(np.asarray(r[k], dtype=float), arr, 1e-7) for k, arr in zip(("pore_widths", "pore_areas", "pore_volumes"), arrs) if np.all(np.isfinite(np.asarray(r[k], dtype=float))))
                    if ok and np.all(np.isfinite(np.asarray(r["pore_distribution"], dtype=float))):
                        ok = dist_agree(r["pore_distribution"], r["pore_volumes"], arrs[3], arrs[2], arrs[0], arrs[5], 1e-7, wq)
            elif what == "wrapper":
                method, geo, r = data
                if t[0] != "ok":
                    ok = False
                else:
                    arrs = [parse_qlist(x) for x in t[1:7]]
                    ok = (all(agree(np.asarray(r[k], dtype=float), arrs[j], 1e-6) for j, k in ((0, "pore_widths"), (1, "pore_areas"), (2, "pore_volumes"), (4, "pore_volume_cumulative")))
                          and dist_agree(r["pore_distribution"], r["pore_volumes"], arrs[3], arrs[2], arrs[0], arrs[5], 1e-6, wq))
            if not ok:
                n_dis += 1
                if n_dis <= 3:
                    ck.broken.append({"step": f"correspondence Model/Meso.lean ({what})", "what": {"request": line[:300], "model": rep[:300], "implementation": str(data)[:300]}})
    # the session model (stateful driver): object ids, refusals, results of the analyses, tabulated curves
    n_sdis = 0
    try:
        sreplies = ck.drive("Meso", slines) if slines else []
    except Exception as e:
        sreplies = None
        ck.broken.append({"step": "driver Meso", "what": str(e)[:600]})
    if sreplies is not None:
        for (what, data), rep, line in zip(splan, sreplies, slines):
            t = rep.split()
            ck.count(("scorr", what), nontrivial=False, bucket="correspondence:session " + what)
            if what == "done":
                ok = t == ["ok", str(data)]
            elif what == "refused":
                ok = t == ["refused"]
            elif what == "tcurve":
                tname, xs, got = data
                ok = t[0] == "ok" and agree(got, parse_qlist(t[1]), 1e-11)
            else:
                method, geo, r, a, b = data
                if t[0] != "ok":
                    ok = False
                else:
                    arrs = [parse_qlist(x) for x in t[1:6]] + [parse_qlist(t[8])]
                    ok = ((int(t[6]), int(t[7])) == (a, b)
                          and all(agree(np.asarray(r[k], dtype=float), arrs[j], 1e-6) for j, k in ((0, "pore_widths"), (1, "pore_areas"), (2, "pore_volumes"), (4, "pore_volume_cumulative")))
                          and dist_agree(r["pore_distribution"], r["pore_volumes"], arrs[3], arrs[2], arrs[0], arrs[5], 1e-6, wq))
            if not ok:
                n_sdis += 1
                if n_sdis <= 3:
                    ck.broken.append({"step": f"correspondence Model/MesoSession.lean ({what})", "what": {"request": line[:300], "model": rep[:300], "implementation": str(data)[:300]}})
    ck.cov["correspondence_disagreements"] = n_dis + n_sdis
    ck.cov["session"] = {"adsorbate_objects_created": len(objs), "isotherms_in_model": n_iso_model[0], "kept_isotherms": len(kept), "driver_lines": len(slines)}
    worst["distribution vs the ℚ models in units of eps (w_i + w_i+1) / dw_i"] = wq[0]
    ck.cov["worst_relative_errors"] = {k: float(f"{v:.3g}") for k, v in sorted(worst.items())}
    ck.cov["rule"] = ("ONE interpreter session of analyses: random strictly increasing relative-pressure grids (6-80 points; readings exactly on the default limits; consecutive readings 1e-12 … 1e-4 relative "
                      "apart with and without uptake between them) with non-decreasing loading incl. single-step isotherms (the step also between two near-coincident readings; data re-used between consecutive "
                      "analyses), N2/Ar/CO2 and user-defined adsorbate property sets under two shared names (created, re-registered under the same name, edited in place, second object of the same name, "
                      "isotherms kept and re-analysed after their adsorbate changed; molar and mass loading bases; shared temperatures and material names; temperature stored in K or °C incl. the stored number 0), "
                      "every other analysis repeated on a twin of the isotherm in another stored representation (temperature unit, pressure mode / unit, loading basis / unit, material unit; constructed or converted in place), 3 methods x admissible pore geometries x "
                      "explicit or inferred meniscus geometry x zero / Halsey / Harkins-Jura / the two tabulated standard curves / user thickness callables (same __name__) x Kelvin / Kelvin-KJS / user Kelvin "
                      "callables (same __name__), ads and des branches, any pressure limits incl. limits EXACTLY on readings (lower, upper, both, first / last, neighbouring readings, the same reading twice); "
                      "recurrences also on 2-16 point arrays with arbitrary model arrays incl. near-coincident values, with the property clauses on the raw functions; tabulated curves against the data files")
    ck.assumptions += ["CoolProp liquid density / surface tension of the built-in adsorbates are inputs",
                       "user-defined property sets are self-consistent (liquid_molar_density = liquid_density / molar_mass)",
                       "the saturation pressure of a built-in adsorbate (CoolProp) is an input of the absolute-pressure twins; the literal saturation_pressure of a user-defined adsorbate is in Pa",
                       "unit sizes as documented by the library (cm3(STP) = 4.461e-5 mol, torr = 133.322 Pa)"]
