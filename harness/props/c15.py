"""C15 — characterisation results do not depend on the units the isotherm is stored in.

Lean: Props/C15.lean — (i) every routine reads its data through accessors with explicit target units, and by the C01/C02/C03 theorems an
accessor of an isotherm after ANY history of conversions, starting from ANY stored representation, returns the direct conversion of the
original content, so any function of the accessed arrays is invariant; Props/C15/Interp.lean — the same for the interpolating accessors
`pressure_at` / `loading_at` (isosteric enthalpy, reference isotherm of alpha-s): linear interpolation commutes with a change of units;
(ii) homogeneity laws of the generated formulas (Gen/CharR.lean, incl. `simple_bet` / `simple_lang`) and of least squares (Model/Linear.lean)
under n -> k n.
Tie: the models of C02/C03/C14 (correspondence-checked in their own checks) + here: Model/Access.lean (driver `Access`, α = ℚ) against the
real accessors on the exact table (every stored pressure representation) x (every representation a routine asks for), for the column
accessor `pressure()`, the input conversion of `loading_at` and the output conversion of `pressure_at`.
Failing-input search (this file): every entry point on measured and synthetic isotherms before and after a HISTORY: the isotherm is
stored FIRST in any representation (constructed directly in it from independent SI tables — "measured / imported in that representation" —
or converted to it), then converted again (every ordered pair of pressure modes and of loading bases is visited by every routine),
optionally exported and re-imported in between; loading scaling; alpha-s with an independently converted reference (also a reference stored
in relative mode, where the pinned tree is right); Henry constants in own units (unit-factor prediction from the SI tables for every
pressure representation and every unit of the molar and mass loading tables; misses that a control experiment attributes to the scale of the stored
loading numbers alone are the known finding S45-C15a); psd_dft: what is handed to the kernel fit (1e-9) and what the fit returns (1e-6; misses with
agreeing fit inputs are the known finding S46-C15b); isosteric enthalpy of sets in a common representation AND of mixed sets (every isotherm in its own representation).
Adsorbate KINDS (round 7): besides the shipped adsorbates with a working backend, three user-defined kinds registered under fresh names and passed by name - no backend (every
constant a constructor literal), a backend that cannot answer at the isotherm's temperature (literal fall-back after a backend error), own name on a working backend - run through
the same oracles: their synthetic isotherms are STORED in absolute mode in any unit (pressure column from the literal p0, not from the adsorbate) and take part in the invariance /
history / homogeneity loop of every routine, alpha-s with a reference in relative mode, the model-isotherm oracle (generating constants come back: absolute, no second library run
as reference), Henry constants in own units, isosteric enthalpy (also: the enthalpy of a van 't Hoff set IS the generating enthalpy) and the Model/Access correspondence (context
line = the literals).  The SI oracle of these adsorbates (`direct`, unit-factor predictions) is built from the literals (c01.Props known=), never from the adsorbate's accessors.
"""
import json
import math
import os

import c01
from pgv.charlib import quiet_logging
from pgv.core import REPO, import_pygaps, qstr, tok
from pgv.models import relerr

P_UNITS = ["Pa", "kPa", "MPa", "mbar", "bar", "atm", "mmHg", "torr"]
VOL = ["cm3", "mL", "L", "m3"]
LOAD = {"molar": ["mmol", "mol", "kmol", "cm3(STP)", "mL(STP)", "L(STP)"], "mass": ["mg", "g", "kg"], "volume_gas": VOL, "volume_liquid": VOL}
MAT = {"mass": ["mg", "g", "kg"], "volume": ["cm3", "L"], "molar": ["mmol", "mol"]}
P_KINDS = ("absolute", "relative", "relative%")
# every ordered pair (stored first -> stored when the routine reads); absolute -> absolute is a change of unit
P_TRANS = [(a, b) for a in P_KINDS for b in P_KINDS if a != b or a == "absolute"]
L_TRANS = [(a, b) for a in LOAD for b in LOAD]


def run(ck):
    pg = import_pygaps()
    import numpy as np
    import pygaps.characterisation as pgc
    from pygaps.parsing.json import isotherm_from_json, isotherm_to_json
    from pygaps.utilities.exceptions import CalculationError, ParameterError
    quiet_logging()
    np.seterr(all="ignore")
    rng = ck.rng
    thorough = ck.tier == "thorough"
    NCONV = ck.n(4, 10)
    NHIST = ck.n(4, 12)
    worst = {}

    def note(k, v):
        worst[k] = max(worst.get(k, 0.0), v)
        return v

    # ------------------------------------------------------------------ isotherms
    def clone(iso, **over):
        d = iso.to_dict()
        d.update(over)
        return pg.PointIsotherm(isotherm_data=iso.data_raw.copy(), pressure_key=iso.pressure_key, loading_key=iso.loading_key, **d)

    def shape(kind):
        """(relative pressures, loadings in mmol/g) of the two synthetic isotherms"""
        n = 70
        rel = np.concatenate([np.geomspace(1e-7, 1e-2, 25), np.linspace(0.012, 0.97, n - 25)])
        if kind == "micro":
            load = 6.0 * (2e5 * rel) ** 0.55 / (1 + (2e5 * rel) ** 0.55) + 0.8 * rel / (1 - 0.6 * rel)
        else:
            nm, c = 3.0, 90.0
            bet = nm * c * rel / ((1 - 0.8 * rel) * (1 - 0.8 * rel + c * rel))
            step = 9.0 / (1 + np.exp(-(rel - 0.42) / 0.025))
            load = bet + step
        return rel, load

    def synthetic(kind, T=77.355, ads="N2"):
        rel, load = shape(kind)
        p0 = pg.Adsorbate.find(ads).saturation_pressure(T, unit="bar")
        return pg.PointIsotherm(pressure=rel * p0, loading=load, material={"name": "pgv-synth-" + kind, "density": 1.7, "molar_mass": 120.0}, adsorbate=ads, temperature=T,
                                pressure_mode="absolute", pressure_unit="bar", loading_basis="molar", loading_unit="mmol", material_basis="mass", material_unit="g", temperature_unit="K")

    data_dir = os.path.join(REPO, "docs", "examples", "data", "characterisation")
    measured = {}
    for fn in ("MCM-41 N2 77.355.json", "Takeda 5A N2 77.355.json", "SiO2 N2 77.355.json"):
        try:
            iso = isotherm_from_json(os.path.join(data_dir, fn))
            iso = clone(iso, material={"name": str(iso.material), "density": 2.1, "molar_mass": 60.0})
            measured[fn.split()[0]] = iso
        except Exception as e:  # noqa
            ck.count(("measured-missing", fn), nontrivial=False, bucket="measured isotherm not loadable")
    isos = {"synthetic micro": synthetic("micro"), "synthetic meso": synthetic("meso"), **measured}

    # ------------------------------------------------------------------ adsorbate KINDS.  The property quantifies over isotherms, not over the shipped adsorbate list: an
    # adsorbate described by the user (every constant a literal of the constructor, registered under a fresh name, referred to BY NAME) takes other paths through
    # core/adsorbate.py than a shipped one with a working thermodynamic backend - the stored-literal fall-back of every property function.  Three kinds besides the shipped ones:
    #   no backend          - no `backend_name` at all: every property is the stored literal
    #   backend cannot answer - a backend exists but fails at the isotherm's temperature (nitrogen above its critical point): literal fall-back after a backend error
    #   own name, backend   - a fresh name on a working backend (constants from the backend, nothing stored)
    # The literals differ from every shipped adsorbate's constants (p0 is neither 1 bar nor 1 atm: a unit factor that is dropped cannot hide).  The SI oracle (`props_of`)
    # takes the LITERALS (c01.Props `known=`), no property accessor of the adsorbate is involved in what `direct()` constructs or in the predicted unit factors.
    tagu = f"pgv-c15-{rng.randrange(10**6):06d}"
    mm_u = round(rng.uniform(24.0, 46.0), 3)
    ld_u, gd_u = round(rng.uniform(0.6, 1.3), 4), round(rng.uniform(0.002, 0.009), 5)
    LIT = dict(formula="X2", molar_mass=mm_u, saturation_pressure=round(rng.uniform(6.1e4, 9.3e4), 1), cross_sectional_area=round(rng.uniform(0.13, 0.2), 3),
               liquid_density=ld_u, liquid_molar_density=ld_u / mm_u, gas_density=gd_u, gas_molar_density=gd_u / mm_u, surface_tension=round(rng.uniform(7.0, 12.0), 2),
               molecular_diameter=0.31, polarizability=1.8e-3, magnetic_susceptibility=3.4e-8, surface_density=6.5e18, enthalpy_liquefaction=5.6)
    KNOWN = {}          # adsorbate name -> constants the oracle uses (absent: the adsorbate's own accessors, as for the shipped ones)
    UKINDS = {}         # kind -> (adsorbate name, temperature)
    mm_n2 = float(pg.Adsorbate.find("N2").molar_mass())
    HK_LIT = {k: LIT[k] for k in ("formula", "cross_sectional_area", "molecular_diameter", "polarizability", "magnetic_susceptibility", "surface_density")}
    # (the molar mass is answered by a backend at any temperature - it is the other constants that fall back on the literals above the critical point -, so the
    #  adsorbate on the nitrogen backend is given nitrogen's molar mass as its literal: both sources agree, as for a user who describes a fluid the backend knows)
    LIT_N2 = {**LIT, "molar_mass": mm_n2, "liquid_molar_density": ld_u / mm_n2, "gas_molar_density": gd_u / mm_n2}
    for kind_, kw_, T_, lit_ in (("no backend", {}, 77.355, LIT), ("backend cannot answer", {"backend_name": "nitrogen"}, 150.0, LIT_N2), ("own name, backend", {"backend_name": "nitrogen"}, 77.355, None)):
        nm_ = f"{tagu}-{len(UKINDS)}"
        try:
            pg.Adsorbate(nm_, store=True, **kw_, **(lit_ if lit_ is not None else {**HK_LIT, "molar_mass": mm_n2}))
        except Exception as e:  # noqa
            ck.fail_case({"routine": "Adsorbate", "clause": "a user-defined adsorbate is refused", "adsorbate_kind": kind_, "error": type(e).__name__}, {"error": repr(e)[:300]})
            continue
        if lit_ is not None:
            KNOWN[nm_] = {"psat": lit_["saturation_pressure"], **{k: lit_[k] for k in c01.QORDER}}
        UKINDS[kind_] = (nm_, T_)

    def synthetic_user(kind, ukind, unit):
        """the synthetic isotherm of a user-defined adsorbate, STORED in absolute mode in `unit`; the pressure column comes from the literal p0 (oracle tables), not from the adsorbate"""
        nm_, T_ = UKINDS[ukind]
        P = c01.Props(nm_, pg.Adsorbate.find(nm_), None, T_, pg, known=KNOWN.get(nm_))
        rel, load = shape(kind)
        return pg.PointIsotherm(pressure=rel * float(P.psat / c01.PA[unit]), loading=load, material={"name": "pgv-synth-" + kind, "density": 1.7, "molar_mass": 120.0},
                                adsorbate=nm_, temperature=T_, pressure_mode="absolute", pressure_unit=unit, loading_basis="molar", loading_unit="mmol", material_basis="mass", material_unit="g", temperature_unit="K")

    USER_ISOS = {}      # isotherm name -> adsorbate kind

    def udetail(iname):
        """what is needed to rebuild the adsorbate of a user-defined kind (part of every failing input)"""
        if iname not in USER_ISOS:
            return {}
        i_ = isos[iname]
        return {"adsorbate": str(i_.adsorbate), "adsorbate_kind": USER_ISOS[iname], "adsorbate_properties": dict(i_.adsorbate.properties), "temperature": float(i_.temperature),
                "came_as": [i_.pressure_mode, i_.pressure_unit, i_.loading_basis, i_.loading_unit]}
    for ukind in UKINDS:
        for kind in ("micro", "meso"):
            if ukind == "own name, backend" and kind == "meso" and not thorough:
                continue
            # stored in absolute mode in any unit; 'Pa' (the unit the constants are kept in) for one isotherm in four
            unit = "Pa" if rng.random() < 0.25 else rng.choice([u for u in P_UNITS if u != "Pa"])
            try:
                iname_ = f"synthetic {kind} [adsorbate: {ukind}]"
                isos[iname_] = synthetic_user(kind, ukind, unit)
                USER_ISOS[iname_] = ukind
            except Exception as e:  # noqa
                ck.fail_case({"routine": "constructor", "clause": "an isotherm of a user-defined adsorbate is refused", "adsorbate_kind": ukind, "error": type(e).__name__}, {"unit": unit, "error": repr(e)[:300]})

    def convert_random(iso):
        """a clone in another representation (ONE conversion of each kind from the representation the isotherm came in)"""
        c = clone(iso)
        desc = {}
        r = rng.random()
        if r < 0.6:
            desc["pressure_unit"] = rng.choice(P_UNITS)
            c.convert_pressure(mode_to="absolute", unit_to=desc["pressure_unit"])
        elif r < 0.8:
            desc["pressure_mode"] = "relative"
            c.convert_pressure(mode_to="relative")
        else:
            desc["pressure_mode"] = "relative%"
            c.convert_pressure(mode_to="relative%")
        if rng.random() < 0.8:
            lb = rng.choice(list(LOAD))
            desc["loading"] = (lb, rng.choice(LOAD[lb]))
            c.convert_loading(basis_to=lb, unit_to=desc["loading"][1])
        # (the material basis/unit is NOT varied: results are documented per isotherm material unit, and the property
        #  quantifies over pressure, loading and temperature representations only)
        if rng.random() < 0.3:
            desc["temperature_unit"] = "°C"
            c.convert_temperature(unit_to="°C")
        if rng.random() < 0.25:
            desc["json_round_trip"] = True
            c = isotherm_from_json(isotherm_to_json(c))
        return c, desc

    # ------------------------------------------------------------------ histories: stored FIRST in one representation, THEN converted again
    PROPS = {}

    def props_of(iso):
        """independent SI content of the isotherm's units (tables of c01.py, CoolProp constants as common inputs)"""
        key = (str(iso.adsorbate), round(float(iso.temperature), 9))
        if key not in PROPS:
            PROPS[key] = c01.Props(key[0], pg.Adsorbate.find(key[0]), None, key[1], pg, known=KNOWN.get(key[0]))
        return PROPS[key]

    def p_factor(iso, prep):
        """number by which stored pressures are multiplied to be expressed in prep = (mode, unit)"""
        P = props_of(iso)
        return float(P.scale_p(iso.pressure_mode, iso.pressure_unit) / P.scale_p(*prep))

    def l_factor(iso, lrep):
        P = props_of(iso)
        mb, mu = iso.material_basis, iso.material_unit
        return float(P.scale_l(iso.loading_basis, iso.loading_unit, mb, mu) / P.scale_l(lrep[0], lrep[1], mb, mu))

    def direct(iso, prep=None, lrep=None, celsius=False):
        """the same physical isotherm CONSTRUCTED in another representation (as if measured / imported in it): the numbers are
        re-expressed with the independent SI tables, no pyGAPS conversion is involved"""
        raw = iso.data_raw.copy()
        d = iso.to_dict()
        if prep is not None:
            raw[iso.pressure_key] = raw[iso.pressure_key] * p_factor(iso, prep)
            d.update(pressure_mode=prep[0], pressure_unit=prep[1])
        if lrep is not None:
            raw[iso.loading_key] = raw[iso.loading_key] * l_factor(iso, lrep)
            d.update(loading_basis=lrep[0], loading_unit=lrep[1])
        if celsius and d.get("temperature_unit") == "K":
            d.update(temperature=float(d["temperature"]) - 273.15, temperature_unit="°C")
        return pg.PointIsotherm(isotherm_data=raw, pressure_key=iso.pressure_key, loading_key=iso.loading_key, **d)

    def apply_steps(c, steps):
        for st in steps:
            if st[0] == "P":
                c.convert_pressure(mode_to=st[1], unit_to=st[2])
            elif st[0] == "L":
                c.convert_loading(basis_to=st[1], unit_to=st[2])
            elif st[0] == "T":
                c.convert_temperature(unit_to=st[1])
            elif st[0] == "C":
                c.convert(**st[1])
            elif st[0] == "json":
                c = isotherm_from_json(isotherm_to_json(c))
            elif st[0] == "use":
                # the object is USED between two conversions (both interpolating accessors, which cache their interpolators on the object)
                p_, l_ = c.pressure(branch="ads"), c.loading(branch="ads")
                c.loading_at(float(p_[len(p_) // 2]))
                c.pressure_at(float(l_[len(l_) // 2]))
        return c

    def p_rep(kind, avoid=None):
        if kind != "absolute":
            return (kind, None)
        return ("absolute", rng.choice([u for u in P_UNITS if u != avoid]))

    def l_rep(basis, like=None, table=LOAD):
        """a unit of the basis; with probability 1/2 the SAME LABEL as `like` when the basis knows it (unit tables shared between bases)"""
        if like in table[basis] and rng.random() < 0.5:
            return (basis, like)
        return (basis, rng.choice(table[basis]))

    cursors = {}

    def history(key, final_p=None, table=LOAD, final_l=None):
        """(start, steps): `start` = (pressure rep, loading rep, celsius) to construct directly, or None (the isotherm as it came);
        the ordered pairs of pressure modes / loading bases are visited cyclically per `key` (= routine), so that every routine sees
        every direction of conversion; final_p / final_l pin the representation the isotherm is in at the end"""
        cur = cursors.setdefault(key, [rng.randrange(len(P_TRANS)), rng.randrange(len(L_TRANS))])
        pt = [t for t in P_TRANS if final_p is None or t[1] == final_p[0]]
        lt = [t for t in L_TRANS if t[0] in table and t[1] in table and (final_l is None or t[1] == final_l[0])]
        pa, pb = pt[cur[0] % len(pt)]
        la, lb = lt[cur[1] % len(lt)]
        cur[0] += 1
        cur[1] += 1
        p1 = p_rep(pa)
        p2 = final_p if final_p is not None else p_rep(pb, avoid=p1[1])
        l1 = l_rep(la, table=table)
        l2 = final_l if final_l is not None else l_rep(lb, like=l1[1], table=table)
        steps = []
        if rng.random() < 0.5:
            start = (p1, l1, rng.random() < 0.15)
        else:
            start = None
            steps = [("P",) + p1, ("L",) + l1]
            rng.shuffle(steps)
        if rng.random() < 0.3:
            kw = {"pressure_mode": p2[0], "loading_basis": l2[0], "loading_unit": l2[1]}
            if p2[1]:
                kw["pressure_unit"] = p2[1]
            second = [("C", kw)]
        else:
            second = [("P",) + p2, ("L",) + l2]
            rng.shuffle(second)
        if rng.random() < 0.3:
            second.insert(rng.randrange(len(second) + 1), ("T", "°C"))
        if rng.random() < 0.35:
            # export -> import: before the second conversion(s) (imported in the first representation, then converted), in between or at the end
            second.insert(rng.randrange(len(second) + 1), ("json",))
        if rng.random() < 0.3:
            second.insert(rng.randrange(len(second)), ("use",))
        return start, steps + second

    def build(iso, hist):
        start, steps = hist
        c = direct(iso, *start) if start is not None else clone(iso)
        return apply_steps(c, steps)

    def hdesc(hist):
        start, steps = hist
        return {"constructed_in": None if start is None else {"pressure": list(start[0]), "loading": list(start[1]), "celsius": start[2]},
                "then": [list(s) if s[0] != "C" else ["convert", s[1]] for s in steps]}

    # ------------------------------------------------------------------ routines: name -> (function, extensive keys, intensive keys)
    def flat(prefix, obj, out):
        if isinstance(obj, dict):
            for k, v in obj.items():
                if k in ("section", "limits", "p_limit_indices", "p_limits", "model_params"):
                    continue
                flat(f"{prefix}.{k}" if prefix else str(k), v, out)
        elif isinstance(obj, (list, tuple)) and obj and isinstance(obj[0], dict):
            for j, v in enumerate(obj):
                flat(f"{prefix}[{j}]", v, out)
        elif obj is None:
            return
        else:
            try:
                out[prefix] = np.asarray(obj, dtype=float)
            except Exception:
                pass
        return out

    PSD = (["pore_distribution", "pore_volume_cumulative"], ["pore_widths"])
    ROUTINES = {
        "area_BET": (lambda i: pgc.area_BET(i), ["area", "n_monolayer"], ["c_const", "p_monolayer", "corr_coef"], 1e-6),
        "area_BET limits": (lambda i: pgc.area_BET(i, p_limits=(0.0605, 0.305)), ["area", "n_monolayer"], ["c_const", "p_monolayer", "corr_coef"], 1e-6),
        "area_langmuir": (lambda i: pgc.area_langmuir(i, p_limits=(0.0105, 0.21)), ["area", "n_monolayer"], ["langmuir_const", "corr_coef"], 1e-6),
        "t_plot": (lambda i: pgc.t_plot(i, thickness_model="Harkins/Jura", t_limits=(0.35, 0.6)), ["results[0].area", "results[0].adsorbed_volume", "results[0].slope", "results[0].intercept"], ["t_curve", "results[0].corr_coef"], 1e-6),
        "alpha_s self": (lambda i: pgc.alpha_s(i, reference_isotherm=i, reference_area="BET", t_limits=(0.3, 1.5)), ["results[0].area", "results[0].adsorbed_volume"], ["alpha_curve", "results[0].slope", "results[0].corr_coef"], 1e-6),
        "dr_plot": (lambda i: pgc.dr_plot(i, p_limits=(1e-6, 0.1)), ["pore_volume"], ["adsorption_potential", "corr_coef", "slope"], 1e-6),
        "da_plot": (lambda i: pgc.da_plot(i, exp=2.3, p_limits=(1e-6, 0.1)), ["pore_volume"], ["adsorption_potential", "corr_coef", "slope"], 1e-6),
        "psd_meso pygaps-DH": (lambda i: pgc.psd_mesoporous(i, psd_model="pygaps-DH", pore_geometry="cylinder", branch="ads"), *PSD, 1e-6),
        "psd_meso BJH": (lambda i: pgc.psd_mesoporous(i, psd_model="BJH", pore_geometry="cylinder", branch="ads"), *PSD, 1e-6),
        "psd_meso DH": (lambda i: pgc.psd_mesoporous(i, psd_model="DH", pore_geometry="cylinder", branch="ads", thickness_model="Halsey"), *PSD, 1e-6),
        "psd_micro HK": (lambda i: pgc.psd_microporous(i, psd_model="HK", pore_geometry="slit", branch="ads", p_limits=(1e-6, 0.2)), *PSD, 2e-4),
        "psd_micro RY": (lambda i: pgc.psd_microporous(i, psd_model="RY", pore_geometry="sphere", branch="ads", p_limits=(1e-6, 0.2)), *PSD, 2e-4),
    }
    ROUTINES["psd_micro HK-CY"] = (lambda i: pgc.psd_microporous(i, psd_model="HK-CY", pore_geometry="cylinder", branch="ads", p_limits=(1e-6, 0.2)), [], ["pore_widths"], 2e-4)
    # every potential of the two HK families is entered in every run (cheap configurations: the synthetic micropore isotherm, few conversions);
    # the cylinder potential of Rege-Yang (a double series per evaluation) on a short pressure window
    ROUTINES["psd_micro RY-CY"] = (lambda i: pgc.psd_microporous(i, psd_model="RY-CY", pore_geometry="slit", branch="ads", p_limits=(1e-6, 0.2)), [], ["pore_widths"], 2e-4)
    ROUTINES["psd_micro HK sphere"] = (lambda i: pgc.psd_microporous(i, psd_model="HK", pore_geometry="sphere", branch="ads", p_limits=(1e-6, 0.2)), *PSD, 2e-4)
    ROUTINES["psd_micro RY slit"] = (lambda i: pgc.psd_microporous(i, psd_model="RY", pore_geometry="slit", branch="ads", p_limits=(1e-6, 0.2)), *PSD, 2e-4)
    ROUTINES["psd_micro RY cylinder"] = (lambda i: pgc.psd_microporous(i, psd_model="RY", pore_geometry="cylinder", branch="ads", p_limits=(1e-5, 1.2e-3)), *PSD, 2e-4)
    ROUTINES["psd_micro HK-CY sphere"] = (lambda i: pgc.psd_microporous(i, psd_model="HK-CY", pore_geometry="sphere", branch="ads", p_limits=(1e-6, 0.2)), [], ["pore_widths"], 2e-4)
    # kernel fit: SLSQP (absolute ftol = 1e-4, start vector 0) stops far from the minimum, and last-bit differences of the input change its path (unchanged tree, same
    # isotherm in Pa / torr / mol: distribution 5 - 48 %, cumulative volume 0.4 - 3 %, fitted isotherm 0.01 - 0.09 % apart; loadings x 0.001: fitted isotherm 8 %): known
    # finding S46-C15b.  Two oracles: (1) what the routine HANDS to the fit - the (pressure, loading) arrays that reach `psd_dft_kernel_fit` are recorded (the call is looked
    # up in the module at call time) and compared to 1e-9: every unit / mode / basis defect of psd_dft itself shows here; (2) what the fit RETURNS (fitted isotherm,
    # distribution, cumulative volume) at 1e-6; a miss of (2) carries `fit_inputs_agree` = outcome of (1) on the same pair, and only misses with agreeing inputs match the
    # known finding.  The fit costs 0.6 - 2 s: it is carried out `dft_fits[0]` times per isotherm (quick tier: base + one conversion + one loading scale on the synthetic
    # isotherm), for the other calls the recorder answers in its place (everything psd_dft itself does still runs)
    import pygaps.characterisation.psd_kernel as pk_mod
    dft_fits = [0]

    def dft(i):
        seen = {}
        orig = pk_mod.psd_dft_kernel_fit

        def rec(pressure, loading, *a, **k):
            seen["fit_input_pressure"], seen["fit_input_loading"] = np.array(pressure, dtype=float), np.array(loading, dtype=float)
            if dft_fits[0] > 0:
                dft_fits[0] -= 1
                seen["real"] = True
                return orig(pressure, loading, *a, **k)
            z = np.zeros(len(pressure))
            return np.zeros(2), np.zeros(2), np.zeros(2), z
        pk_mod.psd_dft_kernel_fit = rec
        try:
            r = pgc.psd_dft(i, branch="ads", bspline_order=2, p_limits=(2e-7, 0.5))
        finally:
            pk_mod.psd_dft_kernel_fit = orig
        out = {"fit_input_pressure": seen["fit_input_pressure"], "fit_input_loading": seen["fit_input_loading"]}
        if seen.get("real"):
            out.update(pore_widths=r["pore_widths"], kernel_loading=r["kernel_loading"], pore_distribution=r["pore_distribution"], pore_volume_cumulative=r["pore_volume_cumulative"])
        return out
    FIT_OUTPUTS = ("kernel_loading", "pore_distribution", "pore_volume_cumulative")   # what the SLSQP fit returns (known finding S46-C15b when they alone move)
    OPTIONAL = {*FIT_OUTPUTS, "pore_widths"}     # present only when the fit was carried out on both sides
    # tolerance of the fit outputs: 1e-6 = the tolerance of the deterministic routines.  A converged non-negative least squares solution of the same problem (scipy nnls on the
    # recorded fit inputs, Takeda 5A in Pa / torr / relative% / mol / mg / L gas) moves by <= 2e-13 (distribution), 1e-15 (fitted isotherm) under re-expression of the units.
    ROUTINES["psd_dft"] = (dft, ["fit_input_loading", *FIT_OUTPUTS], ["fit_input_pressure", "pore_widths"], {**{k: 1e-6 for k in FIT_OUTPUTS}, None: 1e-9})
    DFT_FITS = {"synthetic micro": 2} if not thorough else {"synthetic micro": 8, "Takeda": 4}
    # automatic section search of the t-plot (no limits given): the sections are compared when their number agrees
    ROUTINES["t_plot auto"] = (lambda i: pgc.t_plot(i, thickness_model="Halsey"), ["results[0].area", "results[0].adsorbed_volume", "results[0].slope"], ["t_curve", "results[0].corr_coef"], 1e-6)
    ONLY_ON = {  # routine -> isotherms it runs on in the quick tier (all in the thorough tier), number of conversions per isotherm
        "psd_micro RY-CY": (("synthetic micro", "Takeda"), 2), "psd_micro HK sphere": (("synthetic micro", "Takeda"), 2),
        "psd_micro RY slit": (("synthetic micro", "Takeda"), 2), "psd_micro RY cylinder": (("synthetic micro",), 1),
        "psd_micro HK-CY sphere": (("synthetic micro",), 2), "psd_dft": (("synthetic micro", "Takeda"), 2),
        "t_plot auto": (("synthetic meso", "SiO2"), 2),
    }

    S15A = {"routine_family": "alpha_s", "defect": "reference looked up at relative pressures passed as absolute"}

    def attribute(rname, sig, err=None, what="representation"):
        """alpha_s failures caused by the pressure representation (or the interpolator's range error they lead to) carry the S15a keys"""
        if rname.startswith("alpha_s") and what == "representation" and (err is None or "interpolation range" in err):
            return {**sig, **S15A}
        return sig

    def compare(name, base, other, keys, tol, sig, detail, factor=1.0, what="representation"):
        sig = attribute(name, sig, None, what)
        fit_sig = {}
        if name == "psd_dft":
            # what psd_dft HANDED to the kernel fit on the two sides agrees (to 1e-9, after the factor): then a difference of the fit's outputs is the fit's own doing
            def same(k_, f_):
                return k_ in base and k_ in other and base[k_].shape == other[k_].shape and bool(np.all(np.abs(base[k_] * f_ - other[k_]) <= 1e-9 * np.max(np.abs(base[k_] * f_))))
            fit_sig = {"fit_output": True, "fit_inputs_agree": same("fit_input_pressure", 1.0) and same("fit_input_loading", factor)}
        ref_scale = max([float(np.max(np.abs(v))) for kk, v in base.items() if v.size and np.all(np.isfinite(v)) and kk.split(".")[0] == keys[0].split(".")[0]] + [1e-300]) if keys else 1.0
        for k in keys:
            if (k not in base and k not in other) or (name == "psd_dft" and k in OPTIONAL and (k not in base or k not in other)):
                continue
            if k not in base or k not in other or base[k].shape != other[k].shape:
                ck.fail_case({**sig, "clause": f"result '{k}' missing or of another length after a change of {what}"}, {**detail, "key": k})
                continue
            a, b = base[k] * factor, other[k]
            scale = float(np.max(np.abs(a))) if a.size else 0.0
            if scale < 1e-9 * ref_scale or not np.all(np.isfinite(a)):
                continue          # a quantity that is zero up to rounding (e.g. the intercept of alpha-s against itself)
            e = float(np.max(np.abs(a - b)) / scale)
            note(f"{name}:{k}", e)
            if not (e <= (tol.get(k, tol[None]) if isinstance(tol, dict) else tol)):
                ck.fail_case({**sig, **(fit_sig if name == "psd_dft" and k in FIT_OUTPUTS else {}), "clause": f"result changes with the {what} of the isotherm", "quantity": k.split(".")[-1]},
                             {**detail, "key": k, "before": a.ravel()[:4].tolist(), "after": b.ravel()[:4].tolist(), "relative_difference": e})

    def pkind(iso):
        return iso.pressure_mode

    for iname, iso in isos.items():
        for rname, (fn, ext, inten, tol) in ROUTINES.items():
            nconv, nhist = NCONV, NHIST
            ukind = USER_ISOS.get(iname)
            if ukind is not None:
                # isotherms of user-defined adsorbates: fewer conversions per routine in the quick tier (three kinds x two shapes), histories preferred (they pass through every mode)
                nconv, nhist = (ck.n(1, 3), ck.n(3, 6))
                if rname == "alpha_s self":
                    # known finding S15a: the reference is looked up at p/p0 taken as a pressure in the sample's unit, so already the call on the isotherm AS IT CAME leaves the
                    # reference's range unless p0 is about 1 in that unit (the shipped N2 in bar).  alpha-s of these adsorbates: section "reference in relative mode" below
                    continue
            if rname in ONLY_ON:
                if not thorough and iname.split(" [")[0] not in ONLY_ON[rname][0]:
                    continue
                nconv, nhist = (1, ONLY_ON[rname][1]) if not thorough else (2, 4)
            dft_fits[0] = DFT_FITS.get(iname, 0)
            try:
                base = flat("", fn(iso), {})
            except (CalculationError, ParameterError):
                ck.count(("base-refused", iname, rname), nontrivial=False, bucket="routine not applicable to this isotherm")
                continue
            except Exception as e:  # noqa
                ck.fail_case(attribute(rname, {"routine": rname, "clause": "routine raises a non-pyGAPS error", "error": type(e).__name__}, repr(e)), {"isotherm": iname, "error": repr(e)[:300]})
                continue
            for j in range(nconv + nhist):
                two_step = j >= nconv
                desc = None
                try:
                    if two_step:
                        hist = history(rname)
                        desc = hdesc(hist)
                        conv = build(iso, hist)
                    else:
                        conv, desc = convert_random(iso)
                except Exception as e:  # noqa
                    if two_step:
                        ck.fail_case({"routine": "convert", "clause": "a valid chain of conversions is refused", "error": type(e).__name__}, {"isotherm": iname, "history": desc, "error": repr(e)[:300]})
                    else:
                        ck.count(("conv-failed", iname, j), nontrivial=False, bucket="conversion refused: " + type(e).__name__)
                    continue
                sig = {"routine": rname}
                detail = {"isotherm": iname, "representation": desc}
                if ukind is not None:
                    sig["adsorbate_kind"] = "user-defined: " + ukind
                    detail.update(adsorbate=str(iso.adsorbate), adsorbate_properties={k: v for k, v in iso.adsorbate.properties.items()}, temperature=float(iso.temperature),
                                  came_as=[iso.pressure_mode, iso.pressure_unit, iso.loading_basis, iso.loading_unit])
                if two_step:
                    sig["history"] = "stored first in one representation, then converted"
                    detail["stored_as"] = [conv.pressure_mode, conv.pressure_unit, conv.loading_basis, conv.loading_unit]
                ck.count(("inv", iname, rname, json.dumps(desc, sort_keys=True, default=str)), bucket=("invariance after a history:" if two_step else "invariance:") + rname,
                         sample={"isotherm": iname, "routine": rname, "representation": desc} if j in (0, nconv) and iname.startswith("synthetic micro") else None)
                try:
                    other = flat("", fn(conv), {})
                except (CalculationError, ParameterError) as e:
                    ck.fail_case(attribute(rname, {**sig, "clause": "routine refuses the converted isotherm", "error": type(e).__name__}, str(e)) if rname.startswith("alpha_s") else
                                 {**sig, "clause": "routine refuses the converted isotherm", "error": type(e).__name__}, {**detail, "error": str(e)[:300]})
                    continue
                except Exception as e:  # noqa
                    ck.fail_case(attribute(rname, {**sig, "clause": "routine raises a non-pyGAPS error on the converted isotherm", "error": type(e).__name__}, repr(e)), {**detail, "error": repr(e)[:300]})
                    continue
                if rname == "t_plot auto" and sum(k.endswith(".area") for k in base) != sum(k.endswith(".area") for k in other):
                    ck.fail_case({**sig, "clause": "number of automatically detected sections changes with the representation"}, {**detail, "before": sorted(base), "after": sorted(other)})
                    continue
                compare(rname, base, other, ext + inten, tol, sig, detail)
            # homogeneity: all loadings times k - BOTH extreme factors (an absolute threshold / tolerance in the code shows at one END of the scale only) and one moderate
            # factor; the dear routines get one of the three
            ks = [0.001, 1000.0, rng.choice([0.5, 3.0])]
            if rname in ONLY_ON and not thorough:
                ks = [rng.choice(ks)]
            for k in ks:
                raw = iso.data_raw.copy()
                raw[iso.loading_key] = raw[iso.loading_key] * k
                scaled = pg.PointIsotherm(isotherm_data=raw, pressure_key=iso.pressure_key, loading_key=iso.loading_key, **iso.to_dict())
                ck.count(("hom", iname, rname, k), bucket=f"homogeneity:{rname}")
                if rname == "psd_dft" and "kernel_loading" in base:
                    dft_fits[0] = 1     # the fit is carried out on the scaled isotherm as well (homogeneity of the fit's outputs: known finding S46-C15b)
                try:
                    other = flat("", fn(scaled), {})
                    if rname.startswith("alpha_s"):
                        # against itself: the reference scales too, area (from BET of the reference) scales, slope of loading vs alpha is extensive
                        compare(rname, base, other, ["results[0].area", "results[0].adsorbed_volume", "results[0].slope"], tol, {"routine": rname}, {"isotherm": iname, "scale": k}, factor=k, what="scale of the loadings")
                        compare(rname, base, other, ["alpha_curve", "results[0].corr_coef"], tol, {"routine": rname}, {"isotherm": iname, "scale": k}, what="scale of the loadings")
                    else:
                        # (psd_dft: the scaling law is asserted for what reaches the fit AND for what the fit returns; the SLSQP fit is not scale free on the unchanged tree -
                        #  loadings x 0.001 or x 1000: fitted isotherm 8 % off k x the original, distribution 82 %; x 0.5: distribution 52 % - known finding S46-C15b)
                        # (the Cheng-Yang coverage is loading / (1.01 max loading): scale free, so the widths of the -CY models are intensive too)
                        compare(rname, base, other, ext, tol, {"routine": rname}, {"isotherm": iname, "scale": k}, factor=k, what="scale of the loadings")
                        compare(rname, base, other, inten, tol, {"routine": rname}, {"isotherm": iname, "scale": k}, what="scale of the loadings")
                except (CalculationError, ParameterError) as e:
                    ck.fail_case({"routine": rname, "clause": "routine refuses the scaled isotherm"}, {"isotherm": iname, "scale": k, "error": str(e)[:200]})
                except Exception as e:  # noqa
                    ck.fail_case({"routine": rname, "clause": "routine raises a non-pyGAPS error on the scaled isotherm", "error": type(e).__name__}, {"isotherm": iname, "scale": k, "error": repr(e)[:300]})

    # ------------------------------------------------------------------ alpha-s with a separately converted reference
    for iname in ("synthetic meso", "MCM-41"):
        if iname not in isos or "SiO2" not in isos:
            continue
        iso, ref = isos[iname], isos["SiO2"]
        try:
            base = flat("", pgc.alpha_s(iso, reference_isotherm=ref, reference_area="BET", t_limits=(0.3, 1.2)), {})
        except (CalculationError, ParameterError):
            continue
        except Exception as e:  # noqa
            ck.fail_case(attribute("alpha_s reference", {"routine": "alpha_s reference", "clause": "routine raises a non-pyGAPS error", "error": type(e).__name__}, repr(e)), {"isotherm": iname, "error": repr(e)[:300]})
            continue
        for j in range(NCONV * 2):
            try:
                conv, d1 = convert_random(iso)
                rconv, d2 = convert_random(ref)
                other = flat("", pgc.alpha_s(conv, reference_isotherm=rconv, reference_area="BET", t_limits=(0.3, 1.2)), {})
            except (CalculationError, ParameterError) as e:
                ck.fail_case({"routine": "alpha_s reference", "clause": "routine refuses the converted isotherm", "error": type(e).__name__}, {"isotherm": iname, "error": str(e)[:300]})
                continue
            except Exception as e:  # noqa
                ck.fail_case(attribute("alpha_s reference", {"routine": "alpha_s reference", "clause": "routine raises a non-pyGAPS error on the converted isotherm", "error": type(e).__name__}, repr(e)), {"isotherm": iname, "error": repr(e)[:300]})
                continue
            ck.count(("alphas-ref", iname, j), bucket="invariance:alpha_s with converted reference")
            compare("alpha_s reference", base, other, ["results[0].area", "results[0].adsorbed_volume", "results[0].slope", "alpha_curve"], 1e-6,
                    {"routine": "alpha_s reference", "sample_absolute": "pressure_unit" in d1, "reference_absolute": "pressure_unit" in d2}, {"isotherm": iname, "sample": d1, "reference": d2})

    # ------------------------------------------------------------------ alpha-s, reference STORED IN RELATIVE MODE (the configuration in which the pinned tree looks the reference
    # up correctly: `loading_at(p/p0)` without a mode falls back to the reference's own mode, S15a does not apply): sample after any history, reference after any history
    # that ends in relative mode (reached from absolute, from relative% or constructed in it; any loading representation; export -> import)
    ALPHA_KEYS = ["results[0].area", "results[0].adsorbed_volume", "results[0].slope", "alpha_curve", "results[0].corr_coef"]
    # (user-defined adsorbates: the micropore sample against the mesopore isotherm of the SAME adsorbate as reference)
    ALPHA_PAIRS = [(i_, "SiO2") for i_ in ("synthetic meso", "MCM-41", "synthetic micro")] + [(f"synthetic micro [adsorbate: {k_}]", f"synthetic meso [adsorbate: {k_}]") for k_ in UKINDS]
    for iname, refname in ALPHA_PAIRS:
        if iname not in isos or refname not in isos:
            continue
        ref = direct(isos[refname], ("relative", None))
        # the sample restricted to the pressure range the reference was measured in (outside it the reference cannot be looked up: not a matter of units)
        rmin, rmax = float(np.min(ref.data_raw[ref.pressure_key])) * 1.02, float(np.max(ref.data_raw[ref.pressure_key])) * 0.98
        relp = isos[iname].data_raw[isos[iname].pressure_key] * p_factor(isos[iname], ("relative", None))
        iso = pg.PointIsotherm(isotherm_data=isos[iname].data_raw[(relp >= rmin) & (relp <= rmax)].copy(), pressure_key=isos[iname].pressure_key, loading_key=isos[iname].loading_key, **isos[iname].to_dict())
        rname = "alpha_s, reference in relative mode"
        try:
            base = flat("", pgc.alpha_s(iso, reference_isotherm=ref, reference_area="BET", t_limits=(0.3, 1.2)), {})
        except (CalculationError, ParameterError):
            ck.count(("base-refused", iname, rname), nontrivial=False, bucket="routine not applicable to this isotherm")
            continue
        except Exception as e:  # noqa
            ck.fail_case({"routine": rname, "clause": "routine raises a non-pyGAPS error", "error": type(e).__name__}, {"isotherm": iname, "error": repr(e)[:300]})
            continue
        for j in range(ck.n(6, 16) if iname not in USER_ISOS else ck.n(4, 8)):
            h1, h2 = history(rname + "/sample"), history(rname + "/reference", final_p=("relative", None))
            detail = {"isotherm": iname, "reference_isotherm": refname, "sample": hdesc(h1), "reference": hdesc(h2), **udetail(iname)}
            ck.count(("alphas-relref", iname, json.dumps(detail, sort_keys=True, default=str)), bucket="invariance after a history:" + rname)
            try:
                conv, rconv = build(iso, h1), build(isos[refname], h2)
                other = flat("", pgc.alpha_s(conv, reference_isotherm=rconv, reference_area="BET", t_limits=(0.3, 1.2)), {})
            except Exception as e:  # noqa
                ck.fail_case({"routine": rname, "clause": "routine fails on the converted isotherms", "error": type(e).__name__}, {**detail, "error": repr(e)[:300]})
                continue
            compare(rname, base, other, ALPHA_KEYS, 1e-6, {"routine": rname, "reference_mode": "relative", **({"adsorbate_kind": "user-defined: " + USER_ISOS[iname]} if iname in USER_ISOS else {})}, detail, what="history (representation)")

    # ------------------------------------------------------------------ simple_bet / simple_lang: the model isotherms behind the two area methods.  An isotherm generated from
    # them, stored in any representation, gives the generating constants back (C14 `bet_recovers_parameters`), n_m and area times k for k n_m (`simple_bet_homogeneous`)
    from pygaps.characterisation.area_bet import simple_bet
    from pygaps.characterisation.area_lang import simple_lang
    p0bar = float(pg.Adsorbate.find("N2").saturation_pressure(77.355, unit="bar"))
    relg = np.linspace(0.02, 0.6, 40)
    # the adsorbate of the model isotherm: the shipped N2 (stored in bar) or one of the user-defined kinds (stored in any absolute unit, pressures from the literal p0);
    # the generating constants must come back whatever the adsorbate: an ABSOLUTE oracle (no second run of the library is the reference)
    MODEL_ADS = [("N2", 77.355, "bar", p0bar)]
    for k_, (nm_, T_) in UKINDS.items():
        for u_ in rng.sample(P_UNITS, 2):
            MODEL_ADS.append((nm_, T_, u_, float(c01.Props(nm_, pg.Adsorbate.find(nm_), None, T_, pg, known=KNOWN.get(nm_)).psat / c01.PA[u_])))
    for j in range(ck.n(3, 10) + len(MODEL_ADS) - 1):
        nm, cc, k = rng.uniform(0.5, 8.0), math.exp(rng.uniform(math.log(20), math.log(400))), rng.choice([0.001, 0.5, 3.0, 1000.0])
        ads_m, T_m, unit_m, p0_m = MODEL_ADS[j % len(MODEL_ADS)]
        for meth, gen, run_, keyc in (("simple_bet", simple_bet, lambda i: pgc.area_BET(i, p_limits=(0.045, 0.355)), "c_const"),
                                      ("simple_lang", simple_lang, lambda i: pgc.area_langmuir(i, p_limits=(0.045, 0.605)), "langmuir_const")):
            ck.count((meth, j), bucket="model isotherm behind the method:" + meth)
            try:
                l1, lk = np.asarray(gen(relg, nm, cc), dtype=float), np.asarray(gen(relg, k * nm, cc), dtype=float)
                e = float(np.max(np.abs(lk - k * l1) / np.abs(k * l1)))
                if not e <= 1e-12:
                    ck.fail_case({"routine": meth, "clause": "model loading is not homogeneous in the monolayer capacity"}, {"n_monolayer": nm, "constant": cc, "scale": k, "relative_difference": e})
                b0 = pg.PointIsotherm(pressure=relg * p0_m, loading=l1, material={"name": "pgv-synth-model", "density": 1.7, "molar_mass": 120.0}, adsorbate=ads_m, temperature=T_m,
                                      pressure_mode="absolute", pressure_unit=unit_m, loading_basis="molar", loading_unit="mmol", material_basis="mass", material_unit="g", temperature_unit="K")
                # as constructed (first visit of an adsorbate: no conversion at all between the literal table and the routine) or after a history
                hist = history(meth) if j >= len(MODEL_ADS) or ads_m == "N2" else (None, [])
                res = run_(build(b0, hist))
                got = (float(res["n_monolayer"]), float(res[keyc]))
                for nmq, (g, w) in zip(("n_monolayer", keyc), zip(got, (nm * 1e-3, cc))):   # (the monolayer capacity is reported in mol per unit of material)
                    e = relerr(g, w)
                    note(f"{meth}:{nmq}", e)
                    if e > 1e-6:
                        ck.fail_case({"routine": meth, "clause": "analysis of the model isotherm stored in another representation does not return its constants", "quantity": nmq},
                                     {"n_monolayer": nm, "constant": cc, "adsorbate": ads_m, "temperature": T_m, "constructed_in": ["absolute", unit_m, "molar", "mmol"], "saturation_pressure_in_that_unit": p0_m,
                                      "adsorbate_properties": dict(pg.Adsorbate.find(ads_m).properties), "history": hdesc(hist), "got": g, "expected": w})
            except Exception as e:  # noqa
                ck.fail_case({"routine": meth, "clause": "routine fails on a model isotherm", "error": type(e).__name__}, {"n_monolayer": nm, "constant": cc, "error": repr(e)[:300]})

    # ------------------------------------------------------------------ initial Henry constants: in the isotherm's own units
    pf = {"Pa": 1.0, "kPa": 1e3, "MPa": 1e6, "mbar": 1e2, "bar": 1e5, "atm": 101325.0, "mmHg": 133.322387415, "torr": 101325.0 / 760}
    lf = {"mmol": 1e-3, "mol": 1.0, "kmol": 1e3}
    # Known finding S45-C15a (same root as S33 of C12): with SMALL stored loading numbers (kmol/g, kg/g: numbers below about 1e-3) initial_henry_slope / initial_henry_virial
    # on the unchanged tree return constants that are off the unit-factor prediction by factors 3 .. 3000 for every pressure representation (scipy least_squares is called with
    # unscaled variables and its default ABSOLUTE gradient tolerance: the fit stops near its starting guess.  Takeda 5A in kmol: slope 18.5 x, virial 3.7 x the converted
    # constant; 1.9e-4 off in mol where the largest loading is 0.02, 6e-3 off where it is 0.003).  The histories reach every unit of the molar and mass tables again.  A miss
    # is ATTRIBUTED by a control experiment, not by a threshold on the numbers: the SAME stored data with the loading column multiplied by the power of ten that brings its
    # largest value into [1, 10) are analysed by the same call; if that answer (divided by the power of ten) does meet the unit-factor prediction, the stored numbers were
    # right and only their scale defeated the optimiser -> signature key `cured_by_rescaling: True` (the known finding); a wrong conversion factor, a routine reading another
    # unit than the isotherm's own, ... is not cured by the control and stays a VIOLATION.  The volume bases are left out: they are covered by the other routines.
    HENRY_LOAD = {"molar": LOAD["molar"], "mass": LOAD["mass"]}
    HENRY_CLAUSE = "initial Henry constant does not change by exactly the unit factors"

    def henry_case(meth, call, c, want, tol, sig, detail, key):
        """one own-units comparison; `call(isotherm)` -> constant.  Returns nothing; reports through ck.fail_case"""
        sig = {"routine": meth, "routine_family": "initial_henry", **sig}
        err = k1 = None
        try:
            k1 = float(call(c))
        except Exception as e:  # noqa
            err = e
        if err is None:
            e = relerr(k1, want)
            if e <= tol:
                note(key, e)
                return
        # control: the same stored numbers, loading column x 10^m with the largest loading in [1, 10)
        control = {}
        cured = False
        try:
            lcol = c.data_raw[c.loading_key]
            top = float(np.max(np.abs(lcol)))
            s10 = 10.0 ** (-math.floor(math.log10(top)))
            control["loading_numbers_times"] = s10
            if s10 != 1.0:
                raw = c.data_raw.copy()
                raw[c.loading_key] = lcol * s10
                kc = float(call(pg.PointIsotherm(isotherm_data=raw, pressure_key=c.pressure_key, loading_key=c.loading_key, **c.to_dict()))) / s10
                control.update(got=kc, relative_difference=relerr(kc, want))
                note(key + " [control of S45-C15a]", control["relative_difference"])
                cured = control["relative_difference"] <= tol
        except Exception as e2:  # noqa
            control["error"] = repr(e2)[:200]
        if err is not None:
            ck.fail_case({**sig, "clause": "routine fails on the converted isotherm", "error": type(err).__name__, "cured_by_rescaling": cured}, {**detail, "error": repr(err)[:200], "control": control})
        else:
            ck.fail_case({**sig, "clause": HENRY_CLAUSE, "cured_by_rescaling": cured}, {**detail, "got": k1, "expected": want, "relative_difference": relerr(k1, want), "control": control})

    for iname in ("synthetic micro", "Takeda", *[i_ for i_, k_ in USER_ISOS.items() if i_.startswith("synthetic micro") and (thorough or k_ == "no backend")]):
        if iname not in isos:
            continue
        iso = isos[iname]
        plo, phi = float(iso.pressure()[2]) * 1.0000001, float(iso.pressure()[14]) * 1.0000001
        for meth, fn in (("initial_henry_slope", lambda i, f=1.0: pgc.initial_henry_slope(i, max_adjrms=0.01)), ("initial_henry_virial", lambda i, f=1.0: pgc.initial_henry_virial(i)),
                         ("initial_henry_slope limits", lambda i, f=1.0: pgc.initial_henry_slope(i, max_adjrms=0.02, p_limits=(plo * f, phi * f)))):
            try:
                k0 = float(fn(iso))
            except Exception as e:  # noqa
                ck.count(("henry-base", iname, meth), nontrivial=False, bucket="henry base refused: " + type(e).__name__)
                continue
            if not meth.endswith("limits"):
                for j in range(NCONV if iname not in USER_ISOS else ck.n(2, 6)):
                    pu, lu = rng.choice(["bar", "kPa", "atm", "torr", "mbar"]), rng.choice(["mmol", "mol", "kmol"])
                    c = clone(iso)
                    c.convert(pressure_unit=pu, loading_unit=lu)
                    ck.count(("henry", iname, meth, pu, lu), bucket="own units:" + meth)
                    want = k0 * (lf[iso.loading_unit] / lf[lu]) / (pf[iso.pressure_unit] / pf[pu])
                    henry_case(meth, fn, c, want, 2e-3, {}, {"isotherm": iname, "units": [pu, lu], "base": k0, **udetail(iname)}, meth)
            # after a history, in EVERY pressure representation (relative modes: the constant is per unit of p/p0 resp. per %), molar and mass loadings:
            # the expected factor comes from the independent SI tables and depends on the final representation only
            # (the slope method refits after dropping one row at a time: its histories run on the first 25 points)
            iso_h = iso if "virial" in meth or thorough else pg.PointIsotherm(isotherm_data=iso.data_raw.iloc[:25].copy(), pressure_key=iso.pressure_key, loading_key=iso.loading_key, **iso.to_dict())
            try:
                k0 = float(fn(iso_h))
            except Exception as e:  # noqa
                ck.count(("henry-base", iname, meth, "head"), nontrivial=False, bucket="henry base refused: " + type(e).__name__)
                continue
            for j in range(ck.n(5, 14) if iname not in USER_ISOS else ck.n(3, 8)):
                hist = history(meth, table=HENRY_LOAD)
                d = hdesc(hist)
                ck.count(("henry-hist", iname, meth, json.dumps(d, sort_keys=True, default=str)), bucket="own units after a history:" + meth)
                try:
                    c = build(iso_h, hist)
                    fp, fl = p_factor(iso, (c.pressure_mode, c.pressure_unit)), l_factor(iso, (c.loading_basis, c.loading_unit))
                except Exception as e:  # noqa
                    ck.fail_case({"routine": "convert", "clause": "a valid chain of conversions is refused", "error": type(e).__name__}, {"isotherm": iname, "history": d, "error": repr(e)[:300]})
                    continue
                # (virial fit: the optimiser ends on one of a few plateaus, worst 9.0e-4 over 140 representations of the two isotherms on the pinned tree)
                henry_case(meth, lambda i, fp=fp: fn(i, fp), c, k0 * fl / fp, 4e-3 if "virial" in meth else 2e-3, {"history": "stored first in one representation, then converted"},
                           {"isotherm": iname, "history": d, "stored_as": [c.pressure_mode, c.pressure_unit, c.loading_basis, c.loading_unit], "base": k0, "pressure_factor": fp, "loading_factor": fl, **udetail(iname)},
                           meth + " (history)")

    # ------------------------------------------------------------------ isosteric enthalpy: all isotherms in any common representation
    R = 6.02214076e23 * 1.380649e-23
    ENTH_ABS_TOL = 1e-6   # (measured on the unchanged tree: < 1e-9 - the interpolation error of p at a given loading is the same factor at the three temperatures and drops out of the slope)
    dH, K0, nm = 22.0, 3e-9, 5.0
    Ts = [240.0, 260.0, 285.0]
    # the set is measured with the shipped CO2 (stored in bar) and with a user-defined adsorbate without backend (stored in another absolute unit; its literal p0 is the same
    # at the three temperatures, which the routine need not know: it regresses ln p of ABSOLUTE pressures; the relative modes of the histories go through the literal)
    ENTH_ADS = [("CO2", "bar", "")] + [(UKINDS[k_][0], rng.choice([u for u in P_UNITS if u != "bar"]), " [adsorbate: " + k_ + "]") for k_ in ("no backend",) if k_ in UKINDS]
    for ads_h, unit_h, tag_h in ENTH_ADS:
        quick_user = bool(tag_h) and not thorough
        sig_h = {"adsorbate_kind": "user-defined:" + tag_h} if tag_h else {}
        udet_h = {"adsorbate": ads_h, "adsorbate_properties": dict(pg.Adsorbate.find(ads_h).properties), "came_as": ["absolute", unit_h, "molar", "mmol"], "temperatures": Ts} if tag_h else {}
        pts = []
        for T in Ts:
            K = K0 * math.exp(dH * 1000 / (R * T))
            grid = np.geomspace(1e-3 / K, 200 / K, 300) / 1e5
            ld = nm * (K * 1e5) * grid / (1 + (K * 1e5) * grid)
            pts.append(pg.PointIsotherm(pressure=grid * float(c01.PA["bar"] / c01.PA[unit_h]), loading=ld, material={"name": "pgv-synth", "density": 1.7, "molar_mass": 120.0}, adsorbate=ads_h, temperature=T, pressure_mode="absolute", pressure_unit=unit_h,
                                        loading_basis="molar", loading_unit="mmol", material_basis="mass", material_unit="g", temperature_unit="K"))
        lp = [0.5, 1.5, 3.0]
        try:
            base_h = np.asarray(pgc.isosteric_enthalpy(pts, loading_points=lp)["isosteric_enthalpy"], dtype=float)
        except Exception as e:  # noqa
            base_h = None
            ck.fail_case({**sig_h, "routine": "isosteric_enthalpy", "clause": "routine raises", "error": type(e).__name__}, {"error": repr(e)[:300], **udet_h})
        if base_h is not None:
            # absolute oracle: the three isotherms are Langmuir isotherms whose constant follows van 't Hoff with dH, so the isosteric enthalpy IS dH at every loading,
            # in whatever unit the set is stored (error of the routine's linear interpolation on 300 points per isotherm, measured on the unchanged tree: see `worst`)
            e = float(np.max(np.abs(base_h - dH)) / dH)
            note("isosteric_enthalpy:generating enthalpy" + tag_h, e)
            ck.count(("isosteric-abs", ads_h, unit_h), bucket="isosteric enthalpy of a van 't Hoff set is the generating enthalpy" + tag_h)
            if not (e <= ENTH_ABS_TOL):
                ck.fail_case({"routine": "isosteric_enthalpy", "clause": "enthalpy of a set generated with a known enthalpy is not returned", **sig_h}, {"stored_in": ["absolute", unit_h, "molar", "mmol"], "expected": dH, "got": base_h.tolist(), **udet_h})
            for j in range(NCONV * 3 if not quick_user else ck.n(4, 12)):
                mode = rng.choice(["unit", "unit", "relative", "relative%"])
                pu, lu, mu = rng.choice(P_UNITS), rng.choice(["mmol", "mol", "cm3(STP)"]), rng.choice(["g", "kg", "mg"])
                cs = [clone(p) for p in pts]
                desc = {"mode": mode, "pressure_unit": pu if mode == "unit" else None, "loading_unit": lu, "material_unit": mu}
                ck.count(("isosteric" + tag_h, json.dumps(desc)), bucket="invariance:isosteric_enthalpy:" + ("absolute" if mode == "unit" else mode) + tag_h)
                try:
                    for c in cs:
                        if mode == "unit":
                            c.convert_pressure(unit_to=pu)
                        else:
                            c.convert_pressure(mode_to=mode)
                        c.convert_loading(unit_to=lu)
                    scale_l = float(cs[0].loading()[5] / pts[0].loading()[5])
                    got = np.asarray(pgc.isosteric_enthalpy(cs, loading_points=[x * scale_l for x in lp])["isosteric_enthalpy"], dtype=float)
                except (CalculationError, ParameterError) as e:
                    ck.fail_case({**sig_h, "routine": "isosteric_enthalpy", "clause": "routine refuses the converted isotherms", "pressure_mode": "absolute" if mode == "unit" else "relative"}, {"representation": desc, "error": str(e)[:300], **udet_h})
                    continue
                except Exception as e:  # noqa
                    ck.fail_case({**sig_h, "routine": "isosteric_enthalpy", "clause": "routine raises a non-pyGAPS error on the converted isotherms", "error": type(e).__name__}, {"representation": desc, "error": repr(e)[:300], **udet_h})
                    continue
                e = float(np.max(np.abs(got - base_h) / np.abs(base_h)))
                note("isosteric_enthalpy:" + ("absolute" if mode == "unit" else "relative"), e)
                if not (e <= 1e-4):
                    ck.fail_case({**sig_h, "routine": "isosteric_enthalpy", "clause": "result changes with the representation of the isotherm", "pressure_mode": "absolute" if mode == "unit" else "relative"},
                                 {"representation": desc, "before": base_h.tolist(), "after": got.tolist(), "relative_difference": e, **udet_h})
            # MIXED sets: every isotherm of the set after its own history (own pressure mode / unit, own loading unit; the routine demands one loading BASIS for the
            # set - molar or mass, the volume bases depend on the temperature through the densities and would change the meaning of "equal loading").
            # A factor common to all isotherms drops out of the slope of ln p against 1/T; a wrong factor on ONE isotherm does not.
            for j in range(ck.n(10, 30) if not quick_user else ck.n(6, 30)):
                basis = rng.choice(["molar", "mass"])
                hs = [history("isosteric_enthalpy", table={basis: LOAD[basis]}) for _ in pts]
                desc = [hdesc(h) for h in hs]
                ck.count(("isosteric-mixed" + tag_h, json.dumps(desc, sort_keys=True, default=str)), bucket="invariance after a history:isosteric_enthalpy:mixed set" + tag_h)
                try:
                    cs = [build(p, h) for p, h in zip(pts, hs)]
                    fl = l_factor(pts[0], (cs[0].loading_basis, cs[0].loading_unit))
                    got = np.asarray(pgc.isosteric_enthalpy(cs, loading_points=[x * fl for x in lp])["isosteric_enthalpy"], dtype=float)
                except Exception as e:  # noqa
                    ck.fail_case({**sig_h, "routine": "isosteric_enthalpy", "clause": "routine fails on a set of isotherms stored in different representations", "error": type(e).__name__}, {"histories": desc, "error": repr(e)[:300], **udet_h})
                    continue
                e = float(np.max(np.abs(got - base_h) / np.abs(base_h)))
                note("isosteric_enthalpy:mixed set", e)
                if not (e <= 1e-4):
                    ck.fail_case({**sig_h, "routine": "isosteric_enthalpy", "clause": "result changes with the representation of the isotherm", "history": "every isotherm of the set stored in its own representation"},
                                 {"histories": desc, "stored_as": [[c.pressure_mode, c.pressure_unit, c.loading_basis, c.loading_unit] for c in cs], "before": base_h.tolist(), "after": got.tolist(), "relative_difference": e, **udet_h})
            # objects that have already been interpolated, then converted IN PLACE (only some of them, unit only), then analysed again
            for j in range(NCONV * 2 if not quick_user else ck.n(3, 20)):
                cs = [clone(p) for p in pts]
                try:
                    warm = np.asarray(pgc.isosteric_enthalpy(cs, loading_points=lp)["isosteric_enthalpy"], dtype=float)
                    which = rng.sample(range(len(cs)), rng.randint(1, len(cs) - 1))
                    pu = rng.choice([u for u in P_UNITS if u != unit_h])
                    for w_ in which:
                        cs[w_].convert_pressure(unit_to=pu)
                    got = np.asarray(pgc.isosteric_enthalpy(cs, loading_points=lp)["isosteric_enthalpy"], dtype=float)
                except Exception as e:  # noqa
                    ck.fail_case({**sig_h, "routine": "isosteric_enthalpy", "clause": "routine raises after an in-place conversion", "error": type(e).__name__}, {"error": repr(e)[:300], **udet_h})
                    continue
                ck.count(("isosteric-inplace" + tag_h, tuple(which), pu), bucket="invariance:isosteric_enthalpy:in-place conversion of used objects" + tag_h)
                e = float(np.max(np.abs(got - base_h) / np.abs(base_h)))
                if not (e <= 1e-4) or not np.allclose(warm, base_h, rtol=1e-9):
                    ck.fail_case({**sig_h, "routine": "isosteric_enthalpy", "clause": "result changes with the representation of the isotherm", "history": "interpolated, converted in place, analysed again"},
                                 {"converted": which, "unit": pu, "before": base_h.tolist(), "after": got.tolist(), "relative_difference": e, **udet_h})
            # ... and converted in place to another MODE (any ordered pair of modes), some of them, after the interpolators were built
            for j in range(ck.n(6, 16) if not quick_user else ck.n(3, 16)):
                cs = [clone(p) for p in pts]
                try:
                    pgc.isosteric_enthalpy(cs, loading_points=lp)
                    which = rng.sample(range(len(cs)), rng.randint(1, len(cs)))
                    chain = []
                    if rng.random() < 0.3:
                        # the whole set to another loading basis, in place (the routine demands a common basis); analysed at the same physical loadings
                        for c in cs:
                            c.convert_loading(basis_to="mass", unit_to="mg")
                        chain.append("all: mass / mg")
                    for w_ in which:
                        a, b = P_TRANS[(j + w_) % len(P_TRANS)]
                        st = [("P",) + p_rep(a), ("P",) + p_rep(b)]
                        if rng.random() < 0.5:
                            # ... and the loading unit of this isotherm only (same basis)
                            st.insert(rng.randrange(3), ("L", cs[w_].loading_basis, rng.choice([u for u in LOAD[cs[w_].loading_basis] if u != cs[w_].loading_unit])))
                        chain.append(st)
                        apply_steps(cs[w_], st[:1])
                        if rng.random() < 0.5:
                            fl = l_factor(pts[0], (cs[0].loading_basis, cs[0].loading_unit))
                            pgc.isosteric_enthalpy(cs, loading_points=[x * fl for x in lp])
                        apply_steps(cs[w_], st[1:])
                    fl = l_factor(pts[0], (cs[0].loading_basis, cs[0].loading_unit))
                    got = np.asarray(pgc.isosteric_enthalpy(cs, loading_points=[x * fl for x in lp])["isosteric_enthalpy"], dtype=float)
                except Exception as e:  # noqa
                    ck.fail_case({**sig_h, "routine": "isosteric_enthalpy", "clause": "routine raises after an in-place conversion", "error": type(e).__name__}, {"error": repr(e)[:300], **udet_h})
                    continue
                ck.count(("isosteric-inplace-mode" + tag_h, tuple(which), json.dumps(chain)), bucket="invariance after a history:isosteric_enthalpy:in-place mode conversions of used objects" + tag_h)
                e = float(np.max(np.abs(got - base_h) / np.abs(base_h)))
                note("isosteric_enthalpy:in-place modes", e)
                if not (e <= 1e-4):
                    ck.fail_case({**sig_h, "routine": "isosteric_enthalpy", "clause": "result changes with the representation of the isotherm", "history": "interpolated, converted in place (mode / loading unit), analysed again"},
                                 {"converted": which, "conversions": chain, "before": base_h.tolist(), "after": got.tolist(), "relative_difference": e, **udet_h})

    # ------------------------------------------------------------------ correspondence of Model/Access.lean (what the theorems of Props/C15 part A and Props/C15/Interp
    # are about) with the real accessors on the COMPLETE pressure table: every stored representation x every requested one, for the column accessor `pressure()` (aP), the
    # input conversion of `loading_at` (iP: reference isotherm of alpha-s) and the output conversion of `pressure_at` (oPP: isosteric enthalpy).  The isotherms carry the stored
    # pressure numbers in the loading column as well, so that the interpolation between the two conversions is the identity and the conversion itself is observed.
    import c02
    from fractions import Fraction as Fr
    from pgv.core import close, err_class
    pg.Material("pgv_c15_mat", store=True, density=2.3, molar_mass=321.0)
    # worlds: the shipped N2 (constants from its backend) and the user-defined adsorbates whose constants are literals (context line of the model = the LITERALS, so the
    # correspondence also says: the accessors of an isotherm of such an adsorbate use the stored saturation pressure in the unit the conversion needs)
    worlds = [c02.World(pg, "N2", "N2", "pgv_c15_mat", 77.355)]
    for k_, (nm_, T_) in UKINDS.items():
        if nm_ in KNOWN:
            w_ = c02.World(pg, nm_, nm_, "pgv_c15_mat", T_)
            w_.props = c01.Props(nm_, w_.ads, w_.mat, T_, pg, known=KNOWN[nm_])
            worlds.append(w_)
    PST = [("absolute", u) for u in c01.PA] + [("relative", None), ("relative%", None)]
    relgrid = [0.05, 0.15, 0.3, 0.5, 0.8]
    lines, plan = [], []
    for w in worlds:
        for S in PST:
            fS = float(w.props.psat / w.props.scale_p(*S))
            ps = [r * fS for r in relgrid]
            lab = [S[0], S[1], "molar", "mmol", "mass", "g", "K"]
            try:
                ciso = c02.make_iso(pg, w, lab, ps, list(ps), w.temp, branch=[0] * len(ps))
            except Exception as e:  # noqa
                ck.fail_case({"routine": "constructor", "clause": "an isotherm in a supported representation is refused", "error": type(e).__name__}, {"labels": lab, "error": repr(e)[:200]})
                continue
            lines += [w.ctx_line(), " ".join(["lab"] + [tok(x) for x in lab])]
            plan += [None, None]
            for T in PST:
                fT = float(w.props.scale_p(*S) / w.props.scale_p(*T))
                v_in, y_st = ps[2] * fT * 1.07, ps[1] * 1.31
                for op, val, thunk in (("aP", ps[2], lambda ciso=ciso, T=T: ciso.pressure(pressure_mode=T[0], pressure_unit=T[1])[2]),
                                       ("iP", v_in, lambda ciso=ciso, T=T, v_in=v_in: ciso.loading_at(v_in, pressure_mode=T[0], pressure_unit=T[1])),
                                       ("oPP", y_st, lambda ciso=ciso, T=T, y_st=y_st: ciso.pressure_at(y_st, pressure_mode=T[0], pressure_unit=T[1]))):
                    lines.append(" ".join([op, qstr(val), tok(T[0]), tok(T[1])]))
                    plan.append((op, S, T, val, thunk, w.name))
    try:
        replies = ck.drive("Access", lines)
    except Exception as e:  # noqa
        replies = None
        ck.broken.append({"step": "driver Access", "what": str(e)[:600]})
    n_dis = 0
    for pl, rep_ in zip(plan, replies or []):
        if pl is None:
            continue
        op, S, T, val, thunk, wname = pl
        try:
            got = ("ok", float(thunk()))
        except Exception as e:  # noqa
            got = ("err", err_class(e))
        r = rep_.split()
        ck.count(("corr", op, S, T, wname != "N2"), nontrivial=S != T, bucket="correspondence Model/Access:" + op + ("" if wname == "N2" else " [user-defined adsorbate]"))
        agree = (got[0] == "ok" and close(got[1], Fr(r[1]), rel=1e-9)) if r[0] == "ok" else (got[0] == "err" and c02.ERRMAP.get(r[1], r[1]) == got[1])
        if not agree:
            n_dis += 1
            if n_dis <= 3:
                ck.broken.append({"step": "correspondence Model/Access.lean", "what": {"adsorbate": wname, "request": op, "stored": list(S), "requested": list(T), "value": val, "model": rep_[:80] if r[0] != "ok" else float(Fr(r[1])),
                                                                                      "implementation": [got[0], str(got[1])[:80]]}})
    ck.cov["correspondence_disagreements"] = n_dis

    ck.cov["worst"] = {k: float(f"{v:.3g}") for k, v in sorted(worst.items()) if v > 1e-9}
    ck.cov["n_quantities_compared"] = len(worst)
    ck.cov["rule"] = ("2 synthetic (micro / meso) and 3 measured N2 isotherms x 20 entry points (all HK / RY potentials, psd_dft, automatic t-plot; the dear ones on 1-2 isotherms in the quick tier) x "
                      "(a) one random conversion from the representation the isotherm came in: 8 pressure units + relative + relative%, 4 loading bases x units, °C, JSON round trip; "
                      "(b) histories: stored first in representation A (constructed there from independent SI tables, or converted), then converted to B, every ordered pair of pressure modes and "
                      "of loading bases visited cyclically by every routine, same unit label across bases preferred, export -> import at any position; "
                      "loading scale factors 0.001 and 1000 and one of 0.5 / 3; alpha-s with an independently converted reference and with a reference in relative mode after any history; model isotherms "
                      "simple_bet / simple_lang in any representation; Henry constants in own units (5 x 3 units, and every final representation of a history over the complete molar and mass unit tables: "
                      "factor from the SI tables; a miss is attributed to the scale of the stored loading numbers by re-running the call on the same data x 10^m); psd_dft: fit inputs and fit outputs, "
                      "also under loading scale factors; "
                      "isosteric enthalpy of three isotherms in common representations, in mixed representations (own history per isotherm), and converted in place after use; "
                      "adsorbate kinds: shipped (backend) + user-defined without backend / with a backend that cannot answer at the temperature / own name on a working backend, literals random per seed, "
                      "isotherms stored in absolute mode in any unit, in every oracle above (alpha-s self excepted: S15a); SI oracle of these adsorbates from the literals; "
                      "Model/Access correspondence also with the literals as context")
    ck.assumptions += ["HK solver tolerance 2e-4 (numerical root finding)", "kernel fit outputs compared at 1e-6 (an exact non-negative least squares solution of the same inputs moves by < 2e-13 under re-expression of the units)", "CoolProp properties are inputs common to both sides",
                       "alpha-s: representation invariance can be asserted only for a reference stored in relative mode (known finding S15a for the others)",
                       "user-defined adsorbate on a backend: the molar mass is answered by the backend at any temperature, its literal is the backend fluid's molar mass (both sources agree)"]
