"""C15 — characterisation results do not depend on the units the isotherm is stored in.

Lean: Props/C15.lean — (i) every routine reads its data through accessors with explicit target units, and by the C01/C02/C03 theorems an
accessor of an isotherm after ANY history of conversions returns the direct conversion of the original content, so any function of the accessed
arrays is invariant; (ii) homogeneity laws of the generated formulas (Gen/CharR.lean) and of least squares (Model/Linear.lean) under n -> k n.
Tie: the models of C02/C03/C14 (correspondence-checked in their own checks).  Failing-input search (this file): every entry point on measured
and synthetic isotherms before and after convert() / JSON round trip / loading scaling.
"""
import json
import math
import os

from pgv.charlib import quiet_logging
from pgv.core import REPO, import_pygaps
from pgv.models import logu, relerr

P_UNITS = ["Pa", "kPa", "MPa", "mbar", "bar", "atm", "mmHg", "torr"]
LOAD = {"molar": ["mmol", "mol", "kmol", "cm3(STP)", "mL(STP)", "L(STP)"], "mass": ["mg", "g", "kg"], "volume_gas": ["cm3", "L", "m3"], "volume_liquid": ["cm3", "mL", "L"]}
MAT = {"mass": ["mg", "g", "kg"], "volume": ["cm3", "L"], "molar": ["mmol", "mol"]}


def run(ck):
    pg = import_pygaps()
    import numpy as np
    import pygaps.characterisation as pgc
    from pygaps.parsing.json import isotherm_from_json, isotherm_to_json
    from pygaps.utilities.exceptions import CalculationError, ParameterError
    quiet_logging()
    np.seterr(all="ignore")
    rng = ck.rng
    thorough = ck.tier == "thorough"
    NCONV = ck.n(4, 10)
    worst = {}

    def note(k, v):
        worst[k] = max(worst.get(k, 0.0), v)
        return v

    # ------------------------------------------------------------------ isotherms
    def clone(iso, **over):
        d = iso.to_dict()
        d.update(over)
        return pg.PointIsotherm(isotherm_data=iso.data_raw.copy(), pressure_key=iso.pressure_key, loading_key=iso.loading_key, **d)

    def synthetic(kind, T=77.355, ads="N2"):
        n = 70
        rel = np.concatenate([np.geomspace(1e-7, 1e-2, 25), np.linspace(0.012, 0.97, n - 25)])
        if kind == "micro":
            load = 6.0 * (2e5 * rel) ** 0.55 / (1 + (2e5 * rel) ** 0.55) + 0.8 * rel / (1 - 0.6 * rel)
        else:
            nm, c = 3.0, 90.0
            bet = nm * c * rel / ((1 - 0.8 * rel) * (1 - 0.8 * rel + c * rel))
            step = 9.0 / (1 + np.exp(-(rel - 0.42) / 0.025))
            load = bet + step
        p0 = pg.Adsorbate.find(ads).saturation_pressure(T, unit="bar")
        return pg.PointIsotherm(pressure=rel * p0, loading=load, material={"name": "pgv-synth-" + kind, "density": 1.7, "molar_mass": 120.0}, adsorbate=ads, temperature=T,
                                pressure_mode="absolute", pressure_unit="bar", loading_basis="molar", loading_unit="mmol", material_basis="mass", material_unit="g", temperature_unit="K")

    data_dir = os.path.join(REPO, "docs", "examples", "data", "characterisation")
    measured = {}
    for fn in ("MCM-41 N2 77.355.json", "Takeda 5A N2 77.355.json", "SiO2 N2 77.355.json"):
        try:
            iso = isotherm_from_json(os.path.join(data_dir, fn))
            iso = clone(iso, material={"name": str(iso.material), "density": 2.1, "molar_mass": 60.0})
            measured[fn.split()[0]] = iso
        except Exception as e:  # noqa
            ck.count(("measured-missing", fn), nontrivial=False, bucket="measured isotherm not loadable")
    isos = {"synthetic micro": synthetic("micro"), "synthetic meso": synthetic("meso"), **measured}

    def convert_random(iso):
        """a clone in another representation; returns (isotherm, description, pressure factor, loading factor) - factors only for own-unit results"""
        c = clone(iso)
        desc = {}
        r = rng.random()
        if r < 0.6:
            desc["pressure_unit"] = rng.choice(P_UNITS)
            c.convert_pressure(mode_to="absolute", unit_to=desc["pressure_unit"])
        elif r < 0.8:
            desc["pressure_mode"] = "relative"
            c.convert_pressure(mode_to="relative")
        else:
            desc["pressure_mode"] = "relative%"
            c.convert_pressure(mode_to="relative%")
        if rng.random() < 0.8:
            lb = rng.choice(list(LOAD))
            desc["loading"] = (lb, rng.choice(LOAD[lb]))
            c.convert_loading(basis_to=lb, unit_to=desc["loading"][1])
        # (the material basis/unit is NOT varied: results are documented per isotherm material unit, and the property
        #  quantifies over pressure, loading and temperature representations only)
        if rng.random() < 0.3:
            desc["temperature_unit"] = "°C"
            c.convert_temperature(unit_to="°C")
        if rng.random() < 0.25:
            desc["json_round_trip"] = True
            c = isotherm_from_json(isotherm_to_json(c))
        return c, desc

    # ------------------------------------------------------------------ routines: name -> (function, extensive keys, intensive keys)
    def flat(prefix, obj, out):
        if isinstance(obj, dict):
            for k, v in obj.items():
                if k in ("section", "limits", "p_limit_indices", "p_limits", "model_params"):
                    continue
                flat(f"{prefix}.{k}" if prefix else str(k), v, out)
        elif isinstance(obj, (list, tuple)) and obj and isinstance(obj[0], dict):
            for j, v in enumerate(obj):
                flat(f"{prefix}[{j}]", v, out)
        elif obj is None:
            return
        else:
            try:
                out[prefix] = np.asarray(obj, dtype=float)
            except Exception:
                pass
        return out

    ROUTINES = {
        "area_BET": (lambda i: pgc.area_BET(i), ["area", "n_monolayer"], ["c_const", "p_monolayer", "corr_coef"], 1e-6),
        "area_BET limits": (lambda i: pgc.area_BET(i, p_limits=(0.0605, 0.305)), ["area", "n_monolayer"], ["c_const", "p_monolayer", "corr_coef"], 1e-6),
        "area_langmuir": (lambda i: pgc.area_langmuir(i, p_limits=(0.0105, 0.21)), ["area", "n_monolayer"], ["langmuir_const", "corr_coef"], 1e-6),
        "t_plot": (lambda i: pgc.t_plot(i, thickness_model="Harkins/Jura", t_limits=(0.35, 0.6)), ["results[0].area", "results[0].adsorbed_volume", "results[0].slope", "results[0].intercept"], ["t_curve", "results[0].corr_coef"], 1e-6),
        "alpha_s self": (lambda i: pgc.alpha_s(i, reference_isotherm=i, reference_area="BET", t_limits=(0.3, 1.5)), ["results[0].area", "results[0].adsorbed_volume"], ["alpha_curve", "results[0].slope", "results[0].corr_coef"], 1e-6),
        "dr_plot": (lambda i: pgc.dr_plot(i, p_limits=(1e-6, 0.1)), ["pore_volume"], ["adsorption_potential", "corr_coef", "slope"], 1e-6),
        "da_plot": (lambda i: pgc.da_plot(i, exp=2.3, p_limits=(1e-6, 0.1)), ["pore_volume"], ["adsorption_potential", "corr_coef", "slope"], 1e-6),
        "psd_meso pygaps-DH": (lambda i: pgc.psd_mesoporous(i, psd_model="pygaps-DH", pore_geometry="cylinder", branch="ads"), ["pore_distribution", "pore_volume_cumulative"], ["pore_widths"], 1e-6),
        "psd_meso BJH": (lambda i: pgc.psd_mesoporous(i, psd_model="BJH", pore_geometry="cylinder", branch="ads"), ["pore_distribution", "pore_volume_cumulative"], ["pore_widths"], 1e-6),
        "psd_meso DH": (lambda i: pgc.psd_mesoporous(i, psd_model="DH", pore_geometry="cylinder", branch="ads", thickness_model="Halsey"), ["pore_distribution", "pore_volume_cumulative"], ["pore_widths"], 1e-6),
        "psd_micro HK": (lambda i: pgc.psd_microporous(i, psd_model="HK", pore_geometry="slit", branch="ads", p_limits=(1e-6, 0.2)), ["pore_distribution", "pore_volume_cumulative"], ["pore_widths"], 2e-4),
        "psd_micro RY": (lambda i: pgc.psd_microporous(i, psd_model="RY", pore_geometry="sphere", branch="ads", p_limits=(1e-6, 0.2)), ["pore_distribution", "pore_volume_cumulative"], ["pore_widths"], 2e-4),
    }
    ROUTINES["psd_micro HK-CY"] = (lambda i: pgc.psd_microporous(i, psd_model="HK-CY", pore_geometry="cylinder", branch="ads", p_limits=(1e-6, 0.2)), [], ["pore_widths"], 2e-4)
    if thorough:
        ROUTINES["psd_micro RY-CY"] = (lambda i: pgc.psd_microporous(i, psd_model="RY-CY", pore_geometry="slit", branch="ads", p_limits=(1e-6, 0.2)), [], ["pore_widths"], 2e-4)

    S15A = {"routine_family": "alpha_s", "defect": "reference looked up at relative pressures passed as absolute"}

    def attribute(rname, sig, err=None, what="representation"):
        """alpha_s failures caused by the pressure representation (or the interpolator's range error they lead to) carry the S15a keys"""
        if rname.startswith("alpha_s") and what == "representation" and (err is None or "interpolation range" in err):
            return {**sig, **S15A}
        return sig

    def compare(name, base, other, keys, tol, sig, detail, factor=1.0, what="representation"):
        sig = attribute(name, sig, None, what)
        ref_scale = max([float(np.max(np.abs(v))) for kk, v in base.items() if v.size and np.all(np.isfinite(v)) and kk.split(".")[0] == keys[0].split(".")[0]] + [1e-300]) if keys else 1.0
        for k in keys:
            if k not in base and k not in other:
                continue
            if k not in base or k not in other or base[k].shape != other[k].shape:
                ck.fail_case({**sig, "clause": f"result '{k}' missing or of another length after a change of {what}"}, {**detail, "key": k})
                continue
            a, b = base[k] * factor, other[k]
            scale = float(np.max(np.abs(a))) if a.size else 0.0
            if scale < 1e-9 * ref_scale or not np.all(np.isfinite(a)):
                continue          # a quantity that is zero up to rounding (e.g. the intercept of alpha-s against itself)
            e = float(np.max(np.abs(a - b)) / scale)
            note(f"{name}:{k}", e)
            if not (e <= tol):
                ck.fail_case({**sig, "clause": f"result changes with the {what} of the isotherm", "quantity": k.split(".")[-1]},
                             {**detail, "key": k, "before": a.ravel()[:4].tolist(), "after": b.ravel()[:4].tolist(), "relative_difference": e})

    for iname, iso in isos.items():
        for rname, (fn, ext, inten, tol) in ROUTINES.items():
            try:
                base = flat("", fn(iso), {})
            except (CalculationError, ParameterError):
                ck.count(("base-refused", iname, rname), nontrivial=False, bucket="routine not applicable to this isotherm")
                continue
            except Exception as e:  # noqa
                ck.fail_case(attribute(rname, {"routine": rname, "clause": "routine raises a non-pyGAPS error", "error": type(e).__name__}, repr(e)), {"isotherm": iname, "error": repr(e)[:300]})
                continue
            for j in range(NCONV):
                try:
                    conv, desc = convert_random(iso)
                except Exception as e:  # noqa
                    ck.count(("conv-failed", iname, j), nontrivial=False, bucket="conversion refused: " + type(e).__name__)
                    continue
                sig = {"routine": rname}
                detail = {"isotherm": iname, "representation": desc}
                ck.count(("inv", iname, rname, json.dumps(desc, sort_keys=True, default=str)), bucket=f"invariance:{rname}",
                         sample={"isotherm": iname, "routine": rname, "representation": desc} if j == 0 and iname.startswith("synthetic micro") else None)
                try:
                    other = flat("", fn(conv), {})
                except (CalculationError, ParameterError) as e:
                    ck.fail_case({**sig, "clause": "routine refuses the converted isotherm", "error": type(e).__name__}, {**detail, "error": str(e)[:300]})
                    continue
                except Exception as e:  # noqa
                    ck.fail_case(attribute(rname, {**sig, "clause": "routine raises a non-pyGAPS error on the converted isotherm", "error": type(e).__name__}, repr(e)), {**detail, "error": repr(e)[:300]})
                    continue
                compare(rname, base, other, ext + inten, tol, sig, detail)
            # homogeneity: all loadings times k
            k = rng.choice([0.001, 0.5, 3.0, 1000.0])
            raw = iso.data_raw.copy()
            raw[iso.loading_key] = raw[iso.loading_key] * k
            scaled = pg.PointIsotherm(isotherm_data=raw, pressure_key=iso.pressure_key, loading_key=iso.loading_key, **iso.to_dict())
            ck.count(("hom", iname, rname, k), bucket=f"homogeneity:{rname}")
            try:
                other = flat("", fn(scaled), {})
                if rname.startswith("alpha_s"):
                    # against itself: the reference scales too, area (from BET of the reference) scales, slope of loading vs alpha is extensive
                    compare(rname, base, other, ["results[0].area", "results[0].adsorbed_volume", "results[0].slope"], tol, {"routine": rname}, {"isotherm": iname, "scale": k}, factor=k, what="scale of the loadings")
                    compare(rname, base, other, ["alpha_curve", "results[0].corr_coef"], tol, {"routine": rname}, {"isotherm": iname, "scale": k}, what="scale of the loadings")
                else:
                    # (the Cheng-Yang coverage is loading / (1.01 max loading): scale free, so the widths of the -CY models are intensive too)
                    compare(rname, base, other, ext, tol, {"routine": rname}, {"isotherm": iname, "scale": k}, factor=k, what="scale of the loadings")
                    compare(rname, base, other, inten, tol, {"routine": rname}, {"isotherm": iname, "scale": k}, what="scale of the loadings")
            except (CalculationError, ParameterError) as e:
                ck.fail_case({"routine": rname, "clause": "routine refuses the scaled isotherm"}, {"isotherm": iname, "scale": k, "error": str(e)[:200]})
            except Exception as e:  # noqa
                ck.fail_case({"routine": rname, "clause": "routine raises a non-pyGAPS error on the scaled isotherm", "error": type(e).__name__}, {"isotherm": iname, "scale": k, "error": repr(e)[:300]})

    # ------------------------------------------------------------------ alpha-s with a separately converted reference
    for iname in ("synthetic meso", "MCM-41"):
        if iname not in isos or "SiO2" not in isos:
            continue
        iso, ref = isos[iname], isos["SiO2"]
        try:
            base = flat("", pgc.alpha_s(iso, reference_isotherm=ref, reference_area="BET", t_limits=(0.3, 1.2)), {})
        except (CalculationError, ParameterError):
            continue
        except Exception as e:  # noqa
            ck.fail_case(attribute("alpha_s reference", {"routine": "alpha_s reference", "clause": "routine raises a non-pyGAPS error", "error": type(e).__name__}, repr(e)), {"isotherm": iname, "error": repr(e)[:300]})
            continue
        for j in range(NCONV * 2):
            try:
                conv, d1 = convert_random(iso)
                rconv, d2 = convert_random(ref)
                other = flat("", pgc.alpha_s(conv, reference_isotherm=rconv, reference_area="BET", t_limits=(0.3, 1.2)), {})
            except (CalculationError, ParameterError) as e:
                ck.fail_case({"routine": "alpha_s reference", "clause": "routine refuses the converted isotherm", "error": type(e).__name__}, {"isotherm": iname, "error": str(e)[:300]})
                continue
            except Exception as e:  # noqa
                ck.fail_case(attribute("alpha_s reference", {"routine": "alpha_s reference", "clause": "routine raises a non-pyGAPS error on the converted isotherm", "error": type(e).__name__}, repr(e)), {"isotherm": iname, "error": repr(e)[:300]})
                continue
            ck.count(("alphas-ref", iname, j), bucket="invariance:alpha_s with converted reference")
            compare("alpha_s reference", base, other, ["results[0].area", "results[0].adsorbed_volume", "results[0].slope", "alpha_curve"], 1e-6,
                    {"routine": "alpha_s reference", "sample_absolute": "pressure_unit" in d1, "reference_absolute": "pressure_unit" in d2}, {"isotherm": iname, "sample": d1, "reference": d2})

    # ------------------------------------------------------------------ initial Henry constants: in the isotherm's own units
    pf = {"Pa": 1.0, "kPa": 1e3, "MPa": 1e6, "mbar": 1e2, "bar": 1e5, "atm": 101325.0, "mmHg": 133.322387415, "torr": 101325.0 / 760}
    lf = {"mmol": 1e-3, "mol": 1.0, "kmol": 1e3}
    for iname in ("synthetic micro", "Takeda"):
        if iname not in isos:
            continue
        iso = isos[iname]
        for meth, fn in (("initial_henry_slope", lambda i: pgc.initial_henry_slope(i, max_adjrms=0.01)), ("initial_henry_virial", lambda i: pgc.initial_henry_virial(i))):
            try:
                k0 = float(fn(iso))
            except Exception as e:  # noqa
                ck.count(("henry-base", iname, meth), nontrivial=False, bucket="henry base refused: " + type(e).__name__)
                continue
            for j in range(NCONV):
                pu, lu = rng.choice(["bar", "kPa", "atm", "torr", "mbar"]), rng.choice(["mmol", "mol"])
                c = clone(iso)
                c.convert(pressure_unit=pu, loading_unit=lu)
                ck.count(("henry", iname, meth, pu, lu), bucket="own units:" + meth)
                try:
                    k1 = float(fn(c))
                except Exception as e:  # noqa
                    ck.fail_case({"routine": meth, "clause": "routine fails on the converted isotherm", "error": type(e).__name__}, {"isotherm": iname, "units": [pu, lu], "error": repr(e)[:200]})
                    continue
                want = k0 * (lf["mmol"] / lf[lu]) / (pf["bar"] / pf[pu])
                e = relerr(k1, want)
                note(meth, e)
                if e > 2e-3:
                    ck.fail_case({"routine": meth, "clause": "initial Henry constant does not change by exactly the unit factors"}, {"isotherm": iname, "units": [pu, lu], "got": k1, "expected": want, "base": k0})

    # ------------------------------------------------------------------ isosteric enthalpy: all isotherms in any common representation
    from pygaps.modelling import get_isotherm_model
    R = 6.02214076e23 * 1.380649e-23
    dH, K0, nm = 22.0, 3e-9, 5.0
    Ts = [240.0, 260.0, 285.0]
    pts = []
    for T in Ts:
        K = K0 * math.exp(dH * 1000 / (R * T))
        grid = np.geomspace(1e-3 / K, 200 / K, 300) / 1e5
        ld = nm * (K * 1e5) * grid / (1 + (K * 1e5) * grid)
        pts.append(pg.PointIsotherm(pressure=grid, loading=ld, material={"name": "pgv-synth", "density": 1.7, "molar_mass": 120.0}, adsorbate="CO2", temperature=T, pressure_mode="absolute", pressure_unit="bar",
                                    loading_basis="molar", loading_unit="mmol", material_basis="mass", material_unit="g", temperature_unit="K"))
    lp = [0.5, 1.5, 3.0]
    try:
        base_h = np.asarray(pgc.isosteric_enthalpy(pts, loading_points=lp)["isosteric_enthalpy"], dtype=float)
    except Exception as e:  # noqa
        base_h = None
        ck.fail_case({"routine": "isosteric_enthalpy", "clause": "routine raises", "error": type(e).__name__}, {"error": repr(e)[:300]})
    if base_h is not None:
        for j in range(NCONV * 3):
            mode = rng.choice(["unit", "unit", "relative", "relative%"])
            pu, lu, mu = rng.choice(P_UNITS), rng.choice(["mmol", "mol", "cm3(STP)"]), rng.choice(["g", "kg", "mg"])
            cs = [clone(p) for p in pts]
            desc = {"mode": mode, "pressure_unit": pu if mode == "unit" else None, "loading_unit": lu, "material_unit": mu}
            ck.count(("isosteric", json.dumps(desc)), bucket="invariance:isosteric_enthalpy:" + ("absolute" if mode == "unit" else mode))
            try:
                for c in cs:
                    if mode == "unit":
                        c.convert_pressure(unit_to=pu)
                    else:
                        c.convert_pressure(mode_to=mode)
                    c.convert_loading(unit_to=lu)
                fac = {"mmol": 1.0, "mol": 1e-3, "cm3(STP)": float(cs[0].loading()[5] / pts[0].loading()[5]) if mu == "g" else None}
                scale_l = float(cs[0].loading()[5] / pts[0].loading()[5])
                got = np.asarray(pgc.isosteric_enthalpy(cs, loading_points=[x * scale_l for x in lp])["isosteric_enthalpy"], dtype=float)
            except (CalculationError, ParameterError) as e:
                ck.fail_case({"routine": "isosteric_enthalpy", "clause": "routine refuses the converted isotherms", "pressure_mode": "absolute" if mode == "unit" else "relative"}, {"representation": desc, "error": str(e)[:300]})
                continue
            except Exception as e:  # noqa
                ck.fail_case({"routine": "isosteric_enthalpy", "clause": "routine raises a non-pyGAPS error on the converted isotherms", "error": type(e).__name__}, {"representation": desc, "error": repr(e)[:300]})
                continue
            e = float(np.max(np.abs(got - base_h) / np.abs(base_h)))
            note("isosteric_enthalpy:" + ("absolute" if mode == "unit" else "relative"), e)
            if not (e <= 1e-4):
                ck.fail_case({"routine": "isosteric_enthalpy", "clause": "result changes with the representation of the isotherm", "pressure_mode": "absolute" if mode == "unit" else "relative"},
                             {"representation": desc, "before": base_h.tolist(), "after": got.tolist(), "relative_difference": e})
        # objects that have already been interpolated, then converted IN PLACE (only some of them, unit only), then analysed again
        for j in range(NCONV * 2):
            cs = [clone(p) for p in pts]
            try:
                warm = np.asarray(pgc.isosteric_enthalpy(cs, loading_points=lp)["isosteric_enthalpy"], dtype=float)
                which = rng.sample(range(len(cs)), rng.randint(1, len(cs) - 1))
                pu = rng.choice([u for u in P_UNITS if u != "bar"])
                for w_ in which:
                    cs[w_].convert_pressure(unit_to=pu)
                got = np.asarray(pgc.isosteric_enthalpy(cs, loading_points=lp)["isosteric_enthalpy"], dtype=float)
            except Exception as e:  # noqa
                ck.fail_case({"routine": "isosteric_enthalpy", "clause": "routine raises after an in-place conversion", "error": type(e).__name__}, {"error": repr(e)[:300]})
                continue
            ck.count(("isosteric-inplace", tuple(which), pu), bucket="invariance:isosteric_enthalpy:in-place conversion of used objects")
            e = float(np.max(np.abs(got - base_h) / np.abs(base_h)))
            if not (e <= 1e-4) or not np.allclose(warm, base_h, rtol=1e-9):
                ck.fail_case({"routine": "isosteric_enthalpy", "clause": "result changes with the representation of the isotherm", "history": "interpolated, converted in place, analysed again"},
                             {"converted": which, "unit": pu, "before": base_h.tolist(), "after": got.tolist(), "relative_difference": e})
    ck.cov["worst"] = {k: float(f"{v:.3g}") for k, v in sorted(worst.items()) if v > 1e-9}
    ck.cov["n_quantities_compared"] = len(worst)
    ck.cov["rule"] = ("2 synthetic (micro / meso) and 3 measured N2 isotherms x 12-14 entry points x random representations drawn from 8 pressure units + relative + relative%, 4 loading bases x units, 3 material bases x units, "
                      "°C, JSON round trip; loading scale factors 0.5 / 3 / 1000; alpha-s with an independently converted reference; Henry constants in 5 x 2 own units; isosteric enthalpy of three isotherms in common representations")
    ck.assumptions += ["HK solver tolerance 2e-4 (numerical root finding)", "CoolProp properties are inputs common to both sides"]
