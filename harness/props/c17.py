"""C17 — Horvath-Kawazoe pore widths solve the method's potential equation.

Lean: Props/C17.lean over Gen/CharR.lean (the slit-pore HK potential, N_A/RT, the Kirkwood-Mueller constants, the liquid-volume
formula and the Cheng-Yang correction term, regenerated from the source on every run) and Model/Micro.lean (bookkeeping after
the solver).  The scalar minimisation itself is numerical: it is decided per result by *certificate* — the potential closure the
library built is recorded (module-level `_solve_hk*` wrapped in this process, no change to the repository) and every reported
width is put back into it.  Independent oracle: the published slit-pore HK equation in SI units, written here.

The other five potentials (HK cylinder / sphere, Rege-Yang slit / cylinder / sphere) are pinned down by Model/HKPot.lean
(Props/C17/Potentials.lean: model = published equations), evaluated exactly at ℚ by Drv/HKPot.lean in ONE batched call:
  (a) correspondence: model vs the recorded closure at pore sizes in the solver's bracket (near the bound, random, next to the
      layer-count / population / truncation jumps) and at every reported width;
  (b) certificate on the MODEL: every reported width that solves the library's equation must solve exp(phi_model(L) - CY) = p
      (residual <= 2e-3 as for the closure, and not worse than on the library's own potential by more than 2e-5: on the unchanged
      tree the two residuals differ by < 1e-7, so the excess is the part of the residual that does not come from the solver);
  (c) if (a) fails: failing-input search — pressures computed from the model potential for the widths of largest disagreement are
      given to the library, the widths it returns must solve the model equation.

The property is PER POINT ("each reported width solves the equation at the corresponding relative pressure"): the points are handed to
the raw functions in any order (increasing, a noisy reading that steps back, shuffled, reversed, a repeated point, one or two points)
and, besides the certificates above on every reported width,
  (d) per-point oracle on the real code: the width reported for point j of a call must be the width reported when the same point stands
      FIRST in a call (the first pass of any loop has no history; Cheng-Yang: together with the point of largest loading, so that the
      coverage is the same), and the same points in another order / a sub-sequence must get the same widths (measured difference on the
      unchanged tree: exactly 0);
  (e) correspondence of the solver loop: Model/Micro.lean `solveHK` / `solveHKCY` (Props/C17/Solver.lean: entry j = minimiser at point j,
      invariance under re-ordering, sub-sequences, repeated pressures, where the loop stops) run by Drv/Char.lean (`hksolve`, `hksolvecy`)
      with the measured first-position widths as the minimiser, against the widths the library's loop returned for the whole sequence;
  (f) widths non-decreasing as a function of pressure: checked on the points sorted by pressure, whatever their order in the call.

Representation of the arguments ("any increasing loading"): the same points reach the raw functions as float64 arrays, lists, tuples, pandas Series
(row labels not 0..n-1), whole-number loadings as Python ints / int64 / int32 / int16 / uint16 arrays / integer Series, and the isotherm entry point
as isotherms whose loading column holds integers (lists of ints, integer arrays, integer DataFrame columns); the bookkeeping clauses (cumulative volume
= adsorbed amount as liquid volume, distribution = finite-difference derivative, interval means) are checked on every one of them — at the raw functions
AND at psd_microporous against the formula (not only against the raw function, which would share a defect) — and the caller's arguments must be unchanged
after the call.  Props/C17.lean `hk_volume_integer_loading`: the liquid volume of a whole-number loading is not a whole number in general (witness).
"""
import math
from fractions import Fraction

from pgv.charlib import optq, parse_qlist, q, qlist, quiet_logging, tv_run
from pgv.core import import_pygaps
from pgv.models import logu, relerr

NA, KB = 6.02214076e23, 1.380649e-23
R = NA * KB
ME, C0 = 9.1093837139e-31, 299792458.0      # CODATA 2022 electron mass, speed of light


def km_constants(ads, mat):
    pa, pm_, xa, xm = (ads["polarizability"] * 1e-27, mat["polarizability"] * 1e-27, ads["magnetic_susceptibility"] * 1e-27, mat["magnetic_susceptibility"] * 1e-27)
    a_ads = 1.5 * ME * C0 ** 2 * pa * xa
    a_mat = 6 * ME * C0 ** 2 * pa * pm_ / (pa / xa + pm_ / xm)
    return a_ads, a_mat


def hk_slit_published(l_nm, T, ads, mat):
    """ln(p/p0) of the Horvath-Kawazoe slit equation (1983), all lengths in metres; l = internuclear distance of the two walls."""
    d = (ads["molecular_diameter"] + mat["molecular_diameter"]) * 1e-9
    l = l_nm * 1e-9
    sigma = (2 / 5) ** (1 / 6) * d / 2
    a_ads, a_mat = km_constants(ads, mat)
    coeff = NA / (R * T) * (mat["surface_density"] * a_mat + ads["surface_density"] * a_ads) / (sigma ** 4 * (l - d))
    return coeff * (sigma ** 4 / (3 * (l - d / 2) ** 3) - sigma ** 10 / (9 * (l - d / 2) ** 9) - sigma ** 4 / (3 * (d / 2) ** 3) + sigma ** 10 / (9 * (d / 2) ** 9))


# ---------------------------------------------------------------------------------------------------------------- Model/HKPot.lean
KIND = {("HK", "cylinder"): "hkcyl", ("HK", "sphere"): "hksph", ("RY", "slit"): "ryslit", ("RY", "cylinder"): "rycyl", ("RY", "sphere"): "rysph"}
MODEL_CLAUSE = "reported width does not solve the method's potential equation (model potential)"
CERT_TOL = 2e-3          # tolerance of the certificate (solver accuracy, measured residuals <= 1.5e-4)
EXCESS_TOL = 2e-5        # solver-independent part: residual on the model potential minus residual on the library's own potential (unchanged tree: <= 1e-9 |phi| < 1e-7)
CORR_TOL = 1e-9          # model (exact) vs closure (floating point), relative; measured <= 4e-12 (<= 6e-11 Rege-Yang sphere at s = 0.03)
SPHERE_MIN_S = 0.03      # spheres: (l - d_eff)/l below this is ill-conditioned in floating point (t_term cancellation ~ 1e-16/s^3)


PER_POINT_CLAUSE = "reported width does not solve the potential equation at its pressure although the same point in another call is solved (the result depends on the other points of the call or their order)"
PER_POINT_TOL = 1e-9     # nm; every point is minimised with the same bounds and potential: measured difference on the unchanged tree is exactly 0
ORDER_MODES = ["increasing", "increasing", "increasing", "dip", "dip", "permuted", "permuted", "reversed", "duplicate"]


def point_order(rng, mode, n):
    """indices in which n points (generated with increasing pressure and loading) are handed to the library"""
    idx = list(range(n))
    if mode == "dip" and n >= 2:                      # one or two readings step back (noisy transducer): neighbours or next-but-one swapped
        for _ in range(rng.choice([1, 1, 2])):
            k = rng.randrange(n - 1)
            j = min(n - 1, k + rng.choice([1, 1, 2]))
            idx[k], idx[j] = idx[j], idx[k]
    elif mode == "permuted":
        rng.shuffle(idx)
    elif mode == "reversed":
        idx.reverse()
    elif mode == "duplicate" and n >= 1:              # one point (pressure and loading) appears twice, anywhere
        idx.insert(rng.randrange(n + 1), rng.randrange(n))
    return idx


# representation of the loading argument: the property quantifies over "any increasing loading", the physics does not depend on the container or dtype
FLOAT_KINDS = ["float64 array", "float64 array", "float64 array", "float list", "float tuple", "float Series"]
INT_KINDS = ["python ints", "int64 array", "int32 array", "int16 array", "uint16 array", "int Series", "whole-number floats"]
BOOK_CUM = "cumulative pore volume is not the adsorbed amount as liquid volume"
BOOK_DIST = "distribution is not the finite-difference derivative of the cumulative volume"
BOOK_MEAN = "reported widths are not the interval means of the solved widths"
ARG_CLAUSE = "the caller's pressure / loading argument is modified by the analysis"


def as_kind(np, pd, kind, values, rng):
    """the numbers `values` (floats; whole numbers for the integer kinds) in the container / dtype `kind`"""
    if kind == "float list":
        return [float(x) for x in values]
    if kind == "float tuple":
        return tuple(float(x) for x in values)
    if kind == "python ints":
        return [int(x) for x in values]
    if kind.endswith("Series"):
        start = rng.choice([1, 5, 100])
        return pd.Series(np.array(values, dtype=np.int64 if kind.startswith("int") else float), index=range(start, start + len(values)))
    if kind.endswith("array") and not kind.startswith("float"):
        return np.array([int(x) for x in values], dtype=getattr(np, kind.split()[0]))
    return np.array(values, dtype=float)


def snapshot(np, x):
    return (type(x).__name__, str(getattr(x, "dtype", "")), [float(v) for v in np.asarray(x).ravel()])


def model_params(T, ads, mat):
    """arguments of the Lean model, computed here (not taken from the library): pi, N_A/(RT), densities, Kirkwood-Mueller constants, diameters"""
    a_ads, a_mat = km_constants(ads, mat)
    return [math.pi, NA / (R * T), ads["surface_density"], a_ads, mat["surface_density"], a_mat, ads["molecular_diameter"], mat["molecular_diameter"]]


def pot_cost(kind, l):
    """measured wall seconds of one exact evaluation (rational series with ~25 l terms per layer)"""
    if kind == "rycyl":
        return 0.012 + 0.003 * l ** 3.3
    if kind == "hkcyl":
        return 0.02 + 0.0017 * l * l
    return 0.01 + 0.003 * l if kind == "hksph" else 0.004


def asin_pops(d_ads, d_mat, l):
    """pi / asin(d_ads / width) for the layers of a Rege-Yang cylinder of radius l that use it (0 elsewhere; one spare entry):
    the transcendental input of the Lean model"""
    d_eff = (d_ads + d_mat) / 2
    n = int(((2 * l - d_mat) / d_ads - 1) / 2) + 1
    out = []
    for layer in range(1, n + 2):
        w = 2 * (l - d_eff - (layer - 1) * d_ads)
        out.append(math.pi / math.asin(d_ads / w) if d_ads <= w else 0.0)
    return out


def jump_points(kind, d_ads, d_mat, lo, hi):
    """pore sizes at which the potential is discontinuous by construction (integer-valued quantities change)"""
    d_eff = (d_ads + d_mat) / 2
    out = []
    if kind == "ryslit":
        out.append(d_mat + 2 * d_ads)                                            # n_layer = 2
    if kind in ("rycyl", "rysph"):
        out += [(d_ads * (2 * m + 1) + d_mat) / 2 for m in range(1, 40)]         # a new layer
    if kind == "rycyl":
        out += [d_eff + (layer - 0.5) * d_ads for layer in range(1, 40)]         # d_ads = width: population 1 -> pi/asin(1)
    if kind in ("rycyl", "hkcyl"):
        out += [m / 25 for m in range(max(1, int(lo * 25)), int(hi * 25) + 2)]   # int(l * 25)
    return [x for x in out if lo < x < hi]


def conditioned(kind, d_ads, d_mat, bound, l):
    """False where floating point cannot be compared with the exact model: spheres next to the geometric bound, and pore sizes within
    1e-10 (relative) of a jump (the branch taken in floating point may differ from the exact one)"""
    if not (bound < l <= 50):
        return False
    if kind in ("hksph", "rysph") and (l - bound) / l < SPHERE_MIN_S:
        return False
    return all(abs(l - x) > 1e-10 * l for x in jump_points(kind, d_ads, d_mat, l * (1 - 1e-6), l * (1 + 1e-6)))


def pot_line(kind, P, l, op="pot"):
    pops = asin_pops(P[6], P[7], l) if kind == "rycyl" else []
    return f"{op} {kind} {qlist(P)} {q(l)} {qlist(pops)}"


def pot_value(reply):
    """reply of Drv/HKPot: `ok m e` (value truncated to 96 bits: m * 2^e) or `ok n/d`"""
    t = reply.split()
    if t[0] != "ok":
        return None
    if len(t) == 2:
        n, d = t[1].split("/")
        return float(Fraction(int(n), int(d)))
    return float(Fraction(int(t[1])) * Fraction(2) ** int(t[2]))


def run(ck):
    pg = import_pygaps()
    import numpy as np
    import pandas as pd
    import pygaps.characterisation as pgc
    import pygaps.characterisation.psd_micro as pm
    from pygaps.characterisation.models_hk import _ADSORBENT_MODELS
    from pygaps.utilities.exceptions import CalculationError, ParameterError
    quiet_logging()
    np.seterr(all="ignore")
    rng = ck.rng
    thorough = ck.tier == "thorough"
    N = ck.n(36, 160)

    rec = []
    orig_hk, orig_cy = pm._solve_hk, pm._solve_hk_cy

    def w_hk(pressure, hk_fun, bound, geo):
        r = orig_hk(pressure, hk_fun, bound, geo)
        rec.append(dict(cy=False, p=np.array(pressure, dtype=float), n=None, fun=hk_fun, bound=bound, geo=geo, L=[float(x) for x in r]))
        return r

    def w_cy(pressure, loading, hk_fun, bound, geo):
        r = orig_cy(pressure, loading, hk_fun, bound, geo)
        rec.append(dict(cy=True, p=np.array(pressure, dtype=float), n=np.array(loading, dtype=float), fun=hk_fun, bound=bound, geo=geo, L=[float(x) for x in r]))
        return r

    pm._solve_hk, pm._solve_hk_cy = w_hk, w_cy
    cases, lines, plan = [], [], []
    worst = {}
    runs, reqs = [], []          # Model/HKPot.lean: recorded analyses of the five modelled potentials, model evaluation requests

    def note(k, v):
        worst[k] = max(worst.get(k, 0.0), v)
        return v

    def adsorbate_set():
        return {"molecular_diameter": rng.uniform(0.26, 0.40), "polarizability": logu(rng, 0.8e-3, 4e-3), "magnetic_susceptibility": logu(rng, 1e-8, 6e-8),
                "surface_density": logu(rng, 4e18, 1.2e19), "liquid_density": rng.uniform(0.5, 1.6), "adsorbate_molar_mass": rng.uniform(16, 60)}

    def material_set():
        if rng.random() < 0.7:
            name = rng.choice(sorted(_ADSORBENT_MODELS))
            return name, dict(_ADSORBENT_MODELS[name])
        return "user", {"molecular_diameter": rng.uniform(0.25, 0.36), "polarizability": logu(rng, 0.8e-3, 3e-3), "magnetic_susceptibility": logu(rng, 1e-8, 2e-7), "surface_density": logu(rng, 1e19, 5e19)}

    def solve_again(fn, T, geo, ads, mat, use_cy, pts):
        """internal widths (the solver's return value) the library reports for the points `pts` = [(p, n), ...] in a call of their own"""
        saved = list(rec)
        rec.clear()
        try:
            fn(np.array([p for p, _ in pts]), np.array([n for _, n in pts]), T, geo, ads, mat, use_cy=use_cy)
            return rec[0]["L"] if len(rec) == 1 else None
        except Exception:  # noqa  (refusals are reported where the whole sequence is analysed)
            return None
        finally:
            rec[:] = saved

    def per_point(fn, r, ps, load, T, geo, ads, mat, use_cy, sig, detail, tag):
        """(d) + (e): the widths `r["L"]` the library reported for the sequence (ps, load) against the same points solved first in a call /
        in another order; queues the request for the model loop when every reported point has been measured on its own"""
        L, m, n = r["L"], len(r["L"]), len(ps)
        if m == 0 or m > n:
            ck.broken.append({"step": "per-point oracle", "what": f"solver returned {m} widths for {n} points"})
            return
        jmax = max(range(n), key=lambda k: load[k])
        dips = [j for j in range(1, m) if ps[j] < max(ps[:j])]            # points below an earlier pressure
        chosen_j = list(range(m)) if m <= 8 else sorted(set(rng.sample(dips, min(3, len(dips))) + rng.sample(range(m), 3)))
        table, found = {}, []

        def resid(j, l):
            """relative residual of the potential equation of point j (closure of this analysis, Cheng-Yang term of the point) at pore size l"""
            corr = 0.0
            if r["cy"]:
                c = float(r["n"][j]) / (float(max(r["n"])) * 1.01)
                corr = 1 + 1 / c * math.log(1 - c)
            try:
                e = abs(math.exp(float(r["fun"](l)) - corr) - ps[j]) / ps[j]
            except (OverflowError, ValueError, ZeroDivisionError):
                return math.inf
            return e if e == e else math.inf

        def compare(j, other, how, call, k):
            d = abs(other - L[j])
            if d <= PER_POINT_TOL:
                found.append((0, d, j, other, how, call, k, None, None))
                return
            # the two calls disagree about the point: a violation of the PROPERTY when one of the two widths does not solve the equation of
            # the point while the other does (the equation is solvable, the library found the root itself); two different roots are not
            e_this, e_other = resid(j, L[j]), resid(j, other)
            viol = min(e_this, e_other) <= CERT_TOL < max(e_this, e_other)
            found.append((2 if viol else 1, d, j, other, how, call, k, e_this, e_other))

        for j in chosen_j:
            pts = [(ps[j], load[j])] + ([(ps[jmax], load[jmax])] if use_cy and j != jmax else [])
            L0 = solve_again(fn, T, geo, ads, mat, use_cy, pts)
            ck.count(("per-point", tag, sig["model"], geo, j, ps[j]), bucket=f"per point:{tag}:point first in a call of its own")
            if not L0:
                continue
            table[j] = L0[0]
            compare(j, L0[0], "the point first in a call of its own", pts, 0)
        # the same points (a sub-sequence of at most 8) in another order
        if n >= 2:
            sub = rng.sample(range(n), min(n, 8))
            if use_cy and jmax not in sub:
                sub[0] = jmax
            rng.shuffle(sub)
            pts = [(ps[j], load[j]) for j in sub]
            L2 = solve_again(fn, T, geo, ads, mat, use_cy, pts)
            ck.count(("reorder", tag, sig["model"], geo, tuple(sub)), bucket=f"per point:{tag}:sub-sequence in another order")
            for k, j in enumerate(sub[:len(L2 or [])]):
                if j < m:
                    compare(j, L2[k], "a sub-sequence of the points in another order", pts, k)
        if found:
            level, d, j, other, how, call, k, e_this, e_other = max(found, key=lambda t: (t[0], t[1]))
            note(f"per point (abs nm):{sig['model']}", d)
            info = {"index": j, "pressure_at": ps[j], "width_in_this_call": L[j], "width_in_the_other_call": other, "the_other_call": how,
                    "pressure_of_the_other_call": [x for x, _ in call], "loading_of_the_other_call": [x for _, x in call], "index_in_the_other_call": k,
                    "relative_residual_in_this_call": e_this, "relative_residual_in_the_other_call": e_other,
                    "points_below_an_earlier_pressure": dips[:10], "n_differ": sum(1 for t in found if t[0] > 0)}
            if level == 2:
                ck.fail_case({**sig, "clause": PER_POINT_CLAUSE, "entry": tag, "failing_call": "this call" if e_this > e_other else "the other call"}, {**detail, **info})
            elif level == 1 and not any(b_.get("step") == "per-point oracle (solver loop)" for b_ in ck.broken):
                ck.broken.append({"step": "per-point oracle (solver loop)", "what": {"finding": "the width reported for a point changes with the other points of the call (Model/Micro.lean solveLoop: "
                                  "it must not); both widths solve the equation of the point within the certificate tolerance", **sig, **info}})
        if len(table) == m and m <= 8:
            keys = list(table)
            if use_cy:
                nmax = max(Fraction(float(x)) for x in r["n"])
                covq = [Fraction(float(x)) / (nmax * Fraction(101, 100)) for x in r["n"]]
                kc = "[" + ";".join(f"{covq[j].numerator}/{covq[j].denominator}" for j in keys) + "]"
                lines.append(f"hksolvecy {q(r['geo'])} {qlist(ps)} {qlist(r['n'])} {qlist([ps[j] for j in keys])} {kc} {qlist([table[j] for j in keys])}")
            else:
                lines.append(f"hksolve {q(r['geo'])} {qlist(ps)} {qlist([ps[j] for j in keys])} {qlist([table[j] for j in keys])}")
            plan.append(("hksolve", (L, sig, detail)))

    def bookkeeping(sig_, detail_, L, geo, d_mat, load_used, ads_, w_avg, dist, cum):
        """cumulative volume = adsorbed amount as liquid volume, distribution = its finite-difference derivative, widths = interval means
        (against the formula written here; tolerances as at the raw functions: measured on the unchanged tree <= 3e-16 / 1e-15)"""
        m = len(L)
        vliq = [float(x) * ads_["adsorbate_molar_mass"] / ads_["liquid_density"] / 1000 for x in load_used]
        rep = [(l - d_mat) if geo == "slit" else (2 * l - d_mat) for l in L]
        w_avg, dist, cum = (np.asarray(x, dtype=float) for x in (w_avg, dist, cum))
        if not (len(w_avg) == len(dist) == len(cum) == m - 1):
            ck.fail_case({**sig_, "clause": "result arrays do not have one entry per interval"}, {**detail_, "lengths": [len(w_avg), len(dist), len(cum)], "widths_found": m})
            return
        e = max([relerr(float(a), b) for a, b in zip(cum, vliq[1:m])] or [0.0])
        note("cumulative (entry point)", e)
        if e > 1e-12:
            ck.fail_case({**sig_, "clause": BOOK_CUM}, {**detail_, "got": [float(x) for x in cum[:4]], "expected": vliq[1:5]})
        dv, dw = np.diff(np.array(vliq[:m])), np.diff(np.array(rep))
        good = np.abs(dw) > 1e-9
        if np.any(good) and np.max(np.abs(dv)) > 0:
            e = float(np.max(np.abs(dist[good] * dw[good] - dv[good]) / np.max(np.abs(dv))))
            note("dist*dw-dV (entry point)", e)
            if not e <= 1e-9:
                ck.fail_case({**sig_, "clause": BOOK_DIST}, {**detail_, "worst": e})
        e = max([abs(float(a) - (x + y) / 2) for a, x, y in zip(w_avg, rep, rep[1:])] or [0.0])
        if not e <= 1e-12:
            ck.fail_case({**sig_, "clause": BOOK_MEAN}, {**detail_, "worst": e})

    def synth_isotherm(ps, load, T, how, **extra):
        """a point isotherm in mmol/g over relative pressure; `how` = the representation of the loading column the constructor receives"""
        common = dict(material="pgv-synth", adsorbate="N2", temperature=T, pressure_mode="relative", pressure_unit=None, loading_basis="molar", loading_unit="mmol",
                      material_basis="mass", material_unit="g", temperature_unit="K", **extra)
        if how.endswith("DataFrame column"):
            col = np.array(load, dtype=np.int64) if how.startswith("int") else np.array(load, dtype=float)
            start = rng.choice([0, 0, 1, 7])
            frame = pd.DataFrame({"pressure": [float(x) for x in ps], "loading": col}, index=range(start, start + len(ps)))
            return pg.PointIsotherm(isotherm_data=frame, pressure_key="pressure", loading_key="loading", **common)
        lo_ = as_kind(np, pd, {"python ints": "python ints", "int64 array": "int64 array", "int32 array": "int32 array", "float list": "float list"}.get(how, "float64 array"), load, rng)
        return pg.PointIsotherm(pressure=list(ps), loading=lo_, **common)

    ISO_FLOAT = ["float list", "float list", "float64 array", "float DataFrame column"]
    ISO_INT = ["python ints", "int64 array", "int32 array", "int DataFrame column", "whole-number floats"]

    try:
        for i in range(N):
            ads, (mname, mat) = adsorbate_set(), material_set()
            T = rng.uniform(70, 300) if rng.random() < 0.85 else rng.randint(70, 300)          # also a temperature given as a whole number (Python int)
            model = rng.choice(["HK", "HK", "HK-CY", "RY", "RY-CY"])
            geo = rng.choice(["slit", "slit", "cylinder", "sphere"])
            d_eff = (ads["molecular_diameter"] + mat["molecular_diameter"]) / 2
            sig = {"model": model, "family": model[:2], "geometry": geo}
            npts = rng.choice([1, 2, 4, 4, 8, 8, 15, 15, 30, 30])
            from_widths = model == "HK" and geo == "slit" and rng.random() < 0.7
            if from_widths:
                # published slit equation -> pressures for chosen widths (internuclear distance between 2 d_eff and ~3 nm)
                ls = sorted(rng.uniform(2 * d_eff + 0.03, 3.0) for _ in range(npts))
                ps = [math.exp(hk_slit_published(l, T, ads, mat)) for l in ls]
                keep = [j for j, p in enumerate(ps) if 1e-12 < p < 0.99 and (j == 0 or p > ps[j - 1] * (1 + 1e-9))]
                ls, ps = [ls[j] for j in keep], [ps[j] for j in keep]
                if len(ps) < 1:
                    continue
            else:
                ps = sorted({logu(rng, 1e-7, 0.2) for _ in range(npts)})
            whole = rng.random() < 0.4
            if whole:        # data recorded in whole mmol/g: small numbers (every liquid volume below 1 cm3/g) and large ones
                load = [float(x) for x in np.cumsum([rng.randint(1, rng.choice([1, 3, 3, 8, 40])) for _ in ps])]
            else:
                load = [float(x) for x in np.cumsum([rng.uniform(0.05, 1) for _ in ps])]
            lkind = rng.choice(INT_KINDS if whole else FLOAT_KINDS)
            pkind = lkind if lkind in ("float list", "float tuple", "float Series") else "float list" if lkind == "python ints" else "float Series" if lkind == "int Series" else "float64 array"
            # the order in which the points are handed over (loading stays an increasing function of pressure)
            order_mode = rng.choice(ORDER_MODES)
            idx = point_order(rng, order_mode, len(ps))
            ps, load = [ps[k] for k in idx], [load[k] for k in idx]
            if from_widths:
                ls = [ls[k] for k in idx]
            sig["order"] = order_mode
            ck.count(("hk", model, geo, mname, len(ps), i), bucket=f"certificate:{model}:{geo}" + (":from published widths" if from_widths else ""),
                     sample={"model": model, "geometry": geo, "material": mname, "T": T, "points": len(ps)} if i % 30 == 0 else None)
            ck.count(("order", order_mode, min(len(ps), 3), model, geo), bucket=f"point order:{order_mode}" + (":one or two points" if len(ps) < 3 else ""))
            fn = pm.psd_horvath_kawazoe if model.startswith("HK") else pm.psd_horvath_kawazoe_ry
            rec.clear()
            try:
                p_arg, l_arg = as_kind(np, pd, pkind, ps, rng), as_kind(np, pd, lkind, load, rng)
                before = (snapshot(np, p_arg), snapshot(np, l_arg))
                ck.count(("loading kind", lkind, model[:2], geo, len(ps) > 2), bucket=f"loading given as:{lkind}")
                w_avg, dist, cum = fn(p_arg, l_arg, T, geo, ads, mat, use_cy=model.endswith("CY"))
                if (snapshot(np, p_arg), snapshot(np, l_arg)) != before:
                    ck.fail_case({**sig, "clause": ARG_CLAUSE, "loading_given_as": lkind}, {"T": T, "adsorbate": ads, "material": mat, "pressure": ps, "loading": load,
                                                                                          "before": before, "after": (snapshot(np, p_arg), snapshot(np, l_arg))})
            except (CalculationError, ParameterError) as e:
                ck.fail_case({**sig, "clause": "analysis refused"}, {"T": T, "adsorbate": ads, "material": mat, "error": str(e)[:200]})
                continue
            except Exception as e:  # noqa
                ck.fail_case({**sig, "clause": "analysis raises a non-pyGAPS error", "error": type(e).__name__}, {"T": T, "adsorbate": ads, "material": mat, "pressure": ps, "error": repr(e)[:300]})
                continue
            if len(rec) != 1:
                ck.broken.append({"step": "certificate recording", "what": f"expected one solver call, saw {len(rec)} (the solver entry points changed)"})
                continue
            r = rec[0]
            L = r["L"]
            detail = {"T": T, "adsorbate": ads, "material_name": mname, "material": mat, "pressure": ps, "loading": load, "loading_given_as": lkind, "pressure_given_as": pkind}
            sig_b = {**sig, "loading_dtype": "integer" if whole and lkind != "whole-number floats" else "float"}
            # (a) certificate: every width solves exp(phi(L) - correction) = p
            cov = None if not r["cy"] else r["n"] / (max(r["n"]) * 1.01)
            resid, at_bound, corrs = [], [], []
            for j, l in enumerate(L):
                corr = 0.0 if cov is None else 1 + 1 / cov[j] * math.log(1 - cov[j])
                corrs.append(corr)
                val = math.exp(float(r["fun"](l)) - corr)
                resid.append(abs(val - ps[j]) / ps[j])
                at_bound.append(l <= r["bound"] * (1 + 1e-4) or l >= 50 * (1 - 1e-4))
            bad = [j for j, e in enumerate(resid) if not (e <= 2e-3)]
            # a pressure may have no solution at all (below the potential's minimum at the geometric bound, or inside a jump of the
            # piecewise Rege-Yang potentials): the clause is about reported widths where the equation can be solved, so look for a
            # solution on a dense grid before blaming the solver
            if bad:
                grid = np.concatenate([r["bound"] + np.geomspace(1e-6, 50 - r["bound"], 1500)])
                with np.errstate(all="ignore"):
                    phi = np.array([float(r["fun"](x)) for x in grid])
                solvable = []
                for j in bad[:4]:
                    corr = 0.0 if cov is None else 1 + 1 / cov[j] * math.log(1 - cov[j])
                    g = np.exp(phi - corr) - ps[j]
                    ok_ = np.isfinite(g)
                    sign_change = np.any((g[:-1][ok_[:-1] & ok_[1:]] < 0) != (g[1:][ok_[:-1] & ok_[1:]] < 0))
                    # a sign change between neighbouring grid points whose values are both close to p is a root (not a jump)
                    close = np.abs(g) / ps[j] < 0.2
                    root = False
                    for k in np.flatnonzero(close[:-1] & close[1:] & ((g[:-1] < 0) != (g[1:] < 0)))[:6]:
                        a_, b_, ga = float(grid[k]), float(grid[k + 1]), float(g[k])
                        for _ in range(60):            # bisection: converges to a root, or to a jump (residual stays large)
                            m_ = 0.5 * (a_ + b_)
                            gm = math.exp(float(r["fun"](m_)) - corr) - ps[j]
                            if (gm < 0) == (ga < 0):
                                a_, ga = m_, gm
                            else:
                                b_ = m_
                        if abs(math.exp(float(r["fun"](0.5 * (a_ + b_))) - corr) - ps[j]) / ps[j] < 1e-6:
                            root = True
                            break
                    if root:
                        solvable.append(j)
                    ck.count(("unsolvable", model, geo, i, j), nontrivial=False, bucket="certificate: pressure without solution (skipped)" if not root else "certificate: solvable but missed")
                bad = solvable
            note(f"residual:{model}:{geo}", max([e for j, e in enumerate(resid) if e <= 2e-3] or [0.0]))
            if bad:
                ck.fail_case({**sig, "clause": "reported width does not solve the potential equation", "at_search_bound": bool(all(at_bound[j] for j in bad))},
                             {**detail, "index": bad[0], "width_found": L[bad[0]], "relative_residual": resid[bad[0]], "n_bad": len(bad)})
            # (d), (e) the result for a point does not depend on the other points of the call
            per_point(fn, r, ps, load, T, geo, ads, mat, model.endswith("CY"), sig, detail, "raw function")
            # (a') the five potentials of Model/HKPot.lean: correspondence points and the certificate on the model potential
            kind = KIND.get((model[:2], geo))
            if kind is not None:
                d_a, d_m, bound = ads["molecular_diameter"], mat["molecular_diameter"], float(r["bound"])
                run_ = dict(sig=sig, detail=detail, kind=kind, P=model_params(T, ads, mat), fun=r["fun"], bound=bound, fn=fn, T=T, geo=geo, ads=ads, mat=mat)
                runs.append(run_)
                lo = bound * (1 + (SPHERE_MIN_S * 1.1 if geo == "sphere" else 2e-3))
                pts = [bound * (1 + logu(rng, 0.04 if geo == "sphere" else 2e-3, 0.5)) for _ in range(2)] + [rng.uniform(lo, 3.0) for _ in range(2)]
                jumps = jump_points(kind, d_a, d_m, lo, 3.0)
                for x in rng.sample(jumps, min(3, len(jumps))):
                    eps = rng.choice([1e-9, 1e-7, 1e-5])
                    pts += [x * (1 - eps), x * (1 + eps)]
                for l in pts:
                    if conditioned(kind, d_a, d_m, bound, l):
                        reqs.append(dict(run=run_, role="corr", l=float(l), py=float(r["fun"](l))))
                for j, l in enumerate(L):
                    if resid[j] <= CERT_TOL:                 # the solver did solve the library's own equation at this point
                        if conditioned(kind, d_a, d_m, bound, l):
                            reqs.append(dict(run=run_, role="cert", l=float(l), py=float(r["fun"](l)), j=j, p=ps[j], corr=corrs[j], e_c=resid[j]))
                        else:
                            ck.count(("model-skip", i, j), nontrivial=False, bucket="model certificate: skipped (floating point ill-conditioned next to the bound / a jump)")
            # (b) published slit equation: widths are mapped back
            if from_widths:
                e = max(abs(a - b) for a, b in zip(L, ls))
                note("published slit widths (abs nm)", e)
                if e > 2e-4:
                    j = max(range(len(L)), key=lambda k: abs(L[k] - ls[k]))
                    ck.fail_case({**sig, "clause": "width chosen for the published slit HK equation is not recovered"}, {**detail, "chosen": ls[j], "found": L[j], "pressure_at": ps[j]})
            # translator validation of the slit potential against the recorded closure and the published equation
            if model.startswith("HK") and geo == "slit":
                a_ads, a_mat = km_constants(ads, mat)
                n_rt = NA / R / T
                for l in [rng.uniform(2 * d_eff + 0.01, 3.0) for _ in range(3)]:
                    env = {"d_eff": d_eff, "N_over_RT": n_rt, "n_ads": ads["surface_density"], "a_ads": a_ads, "n_mat": mat["surface_density"], "a_mat": a_mat, "l_pore": l}
                    cases.append(("hk_slit_potential", env, float(r["fun"](l))))
                    if relerr(float(r["fun"](l)), hk_slit_published(l, T, ads, mat)) > 1e-6:
                        ck.fail_case({**sig, "clause": "slit potential differs from the published HK equation"}, {**detail, "l": l, "code": float(r["fun"](l)), "published": hk_slit_published(l, T, ads, mat)})
                cases.append(("hk_N_over_RT", {"temp": T}, pm._N_over_RT(T)))
                cases.append(("km_dispersion_ads", {"p_ads": ads["polarizability"] * 1e-27, "m_ads": ads["magnetic_susceptibility"] * 1e-27},
                              pm._kirkwood_muller_dispersion_ads(ads["polarizability"] * 1e-27, ads["magnetic_susceptibility"] * 1e-27)))
                cases.append(("km_dispersion_mat", {"p_mat": mat["polarizability"] * 1e-27, "m_mat": mat["magnetic_susceptibility"] * 1e-27, "p_ads": ads["polarizability"] * 1e-27, "m_ads": ads["magnetic_susceptibility"] * 1e-27},
                              pm._kirkwood_muller_dispersion_mat(mat["polarizability"] * 1e-27, mat["magnetic_susceptibility"] * 1e-27, ads["polarizability"] * 1e-27, ads["magnetic_susceptibility"] * 1e-27)))
                cases.append(("hk_d_eff", {"d_ads": ads["molecular_diameter"], "d_mat": mat["molecular_diameter"]}, d_eff))
            if cov is not None:
                c = float(cov[len(cov) // 2])
                cases.append(("hk_sf_corr", {"c_point": c}, 1 + 1 / c * math.log(1 - c)))
            # (c) widths non-decreasing in pressure: as a function of pressure, whatever the order of the points in the call
            # (only over the points at which the library did solve its own equation: where the potential equation has no root - pressures below the
            #  potential's minimum next to the geometric bound, a Rege-Yang jump - the solver returns the argmin of the misfit, a width with no meaning)
            by_p = [k for k in sorted(range(len(L)), key=lambda k: ps[k]) if k < len(resid) and resid[k] <= CERT_TOL]
            Ls = [L[k] for k in by_p]
            if any(b < a - 1e-4 for a, b in zip(Ls, Ls[1:])):
                j = next(k for k in range(len(Ls) - 1) if Ls[k + 1] < Ls[k] - 1e-4)
                # which root of the potential equation was reported: the potentials of the curved geometries fall from the geometric bound to a minimum
                # and rise to 0 afterwards, so a pressure above the minimum has TWO roots; the physical one lies on the rising branch (widths then grow
                # with pressure), the bounded minimiser may also stop at the one on the falling branch (finding S52-C17)
                try:
                    lj = L[by_p[j + 1]]
                    falling = bool(float(r["fun"](lj * (1 + 1e-5))) < float(r["fun"](lj)))
                except Exception:  # noqa
                    falling = False
                ck.fail_case({**sig, "clause": "pore widths decrease with pressure", "cheng_yang": bool(r["cy"]), "root_on_falling_branch_of_potential": falling},
                             {**detail, "index": by_p[j], "next_higher_pressure_at_index": by_p[j + 1], "pressures_sorted": [ps[k] for k in by_p[max(0, j - 1):j + 3]], "widths": Ls[max(0, j - 1):j + 3]})
            # (d) bookkeeping: cumulative volume is the adsorbed amount as liquid volume; distribution is the finite-difference derivative
            m = len(L)
            vliq = [x * ads["adsorbate_molar_mass"] / ads["liquid_density"] / 1000 for x in load]
            rep = [(l - mat["molecular_diameter"]) if geo == "slit" else (2 * l - mat["molecular_diameter"]) for l in L]
            cases.append(("hk_volume_adsorbed", {"loading": load[-1], "adsorbate_molar_mass": ads["adsorbate_molar_mass"], "liquid_density": ads["liquid_density"]}, vliq[-1]))
            ok_len = len(w_avg) == len(dist) == len(cum) == m - 1
            if not ok_len:
                ck.fail_case({**sig, "clause": "result arrays do not have one entry per interval"}, {**detail, "lengths": [len(w_avg), len(dist), len(cum)], "widths_found": m})
                continue
            e = max([relerr(float(a), b) for a, b in zip(cum, vliq[1:m])] or [0.0])
            note("cumulative", e)
            if e > 1e-12:
                ck.fail_case({**sig_b, "clause": BOOK_CUM}, {**detail, "got": [float(x) for x in cum[:4]], "expected": vliq[1:5]})
            dv, dw = np.diff(np.array(vliq[:m])), np.diff(np.array(rep))
            good = np.abs(dw) > 1e-9
            if np.any(good):
                e = float(np.max(np.abs(np.asarray(dist, dtype=float)[good] * dw[good] - dv[good]) / np.max(np.abs(dv))))
                note("dist*dw-dV", e)
                if e > 1e-9:
                    ck.fail_case({**sig_b, "clause": BOOK_DIST}, {**detail, "worst": e})
            e = max([abs(float(a) - (x + y) / 2) for a, x, y in zip(w_avg, rep, rep[1:])] or [0.0])
            if e > 1e-12:
                ck.fail_case({**sig_b, "clause": BOOK_MEAN}, {**detail, "worst": e})
            if i % 2 == 0 and m <= 30 and np.all(np.abs(dw) > 0):
                lines.append(f"hktail {qlist(rep)} {qlist(vliq)}")
                plan.append(("hktail", (w_avg, dist, cum)))
                lines.append(f"hkwidth {geo} {q(mat['molecular_diameter'])} {q(L[0])}")
                plan.append(("hkwidth", rep[0]))

        # ------------------------------------------------------------------ isotherm entry point: limits + same numbers as the raw call
        for i in range(max(8, N // 4)):
            npts = rng.choice([8, 15, 30])
            # a third of the isotherms: an adsorption branch whose pressures are not increasing (readings that step back, points in any order;
            # all points marked as adsorption, no pressure limits: the selection by limits presupposes increasing pressures)
            order_mode = "increasing" if rng.random() < 0.65 else rng.choice(["dip", "dip", "permuted", "duplicate"])
            ps = sorted({logu(rng, 1e-7, 0.6 if order_mode == "increasing" else 0.2) for _ in range(npts)})
            whole = rng.random() < 0.45      # data recorded in whole mmol/g: the loading column of the isotherm holds integers
            if whole:
                load = [float(x) for x in np.cumsum([rng.randint(1, rng.choice([1, 3, 3, 8, 40])) for _ in ps])]
            else:
                load = [float(x) for x in np.cumsum([rng.uniform(0.05, 1) for _ in ps])]
            how = rng.choice(ISO_INT if whole else ISO_FLOAT)
            idx = point_order(rng, order_mode, len(ps))
            ps, load = [ps[k] for k in idx], [load[k] for k in idx]
            iso = synth_isotherm(ps, load, 77.355, how, **({} if order_mode == "increasing" else {"branch": "ads"}))
            if order_mode != "increasing":
                lim = (rng.choice([None, 0]), None)
            else:
                lim = None if rng.random() < 0.4 else (rng.choice([None, 0, logu(rng, 1e-7, 1e-3)]), rng.choice([None, rng.uniform(0.01, 0.6), rng.choice(ps)]))
            model, geo = rng.choice(["HK", "HK-CY", "RY", "RY-CY"]), rng.choice(["slit", "cylinder", "sphere"])
            ads_model = adsorbate_set()
            lo, hi = (None, 0.2) if lim is None else lim
            strict = [j for j, p in enumerate(ps) if (not lo or p > lo) and (not hi or p < hi)]
            loose = [j for j, p in enumerate(ps) if (not lo or p >= lo) and (not hi or p <= hi)]
            ck.count(("entry", model, geo, str(lim), i), bucket="entry point:psd_microporous" + ("" if order_mode == "increasing" else ":pressures not increasing"))
            ck.count(("entry loading", how, model[:2], i % 3), bucket=f"entry point:loading column given as:{how}")
            rec.clear()
            try:
                res = pgc.psd_microporous(iso, psd_model=model, pore_geometry=geo, branch="ads", material_model="Carbon(HK)", adsorbate_model=ads_model, p_limits=lim)
                a, b = int(res["limits"][0]), int(res["limits"][1])
                used = list(range(a, b + 1))
                entry_rec = rec[0] if rec else None
                # the entry point must hand the selected points to the potential family and correction its model name stands for
                raw_fn = pm.psd_horvath_kawazoe if model.startswith("HK") else pm.psd_horvath_kawazoe_ry
                raw = raw_fn(np.array(ps)[a:b + 1], np.array(load)[a:b + 1], 77.355, geo, ads_model, dict(_ADSORBENT_MODELS["Carbon(HK)"]), use_cy=model.endswith("CY"))
                same = all(len(x) == len(y) and np.allclose(np.asarray(x, dtype=float), np.asarray(y, dtype=float), rtol=1e-9, atol=0, equal_nan=True)
                           for x, y in zip(raw, (res["pore_widths"], res["pore_distribution"], res["pore_volume_cumulative"])))
                if not same or (entry_rec is not None and entry_rec["cy"] != model.endswith("CY")):
                    ck.fail_case({"model": model, "geometry": geo, "clause": "entry point does not solve the equation of the requested model"},
                                 {"pressure": ps, "limits": lim, "cheng_yang_applied": None if entry_rec is None else entry_rec["cy"],
                                  "entry_widths": [float(x) for x in res["pore_widths"][:5]], "model_widths": [float(x) for x in raw[0][:5]]})
                if entry_rec is not None and len(entry_rec["L"]) <= b - a + 1 and len(entry_rec["p"]) == b - a + 1 and np.allclose(entry_rec["p"], np.array(ps)[a:b + 1], rtol=1e-12):
                    # bookkeeping clauses at the entry point, against the formula (the raw function above receives the same numbers and would share a defect)
                    bookkeeping({"model": model, "family": model[:2], "geometry": geo, "entry": "psd_microporous", "loading_dtype": "integer" if whole and how != "whole-number floats" else "float"},
                                {"T": 77.355, "adsorbate": ads_model, "material_name": "Carbon(HK)", "pressure": ps, "loading": load, "loading_column_given_as": how, "p_limits": lim, "branch": "ads", "used": [a, b]},
                                entry_rec["L"], geo, _ADSORBENT_MODELS["Carbon(HK)"]["molecular_diameter"], load[a:b + 1], ads_model,
                                res["pore_widths"], res["pore_distribution"], res["pore_volume_cumulative"])
                if entry_rec is not None and np.allclose(entry_rec["p"], np.array(ps)[a:b + 1], rtol=1e-12):
                    esig = {"model": model, "family": model[:2], "geometry": geo, "order": order_mode}
                    per_point(raw_fn, entry_rec, ps[a:b + 1], load[a:b + 1], 77.355, geo, ads_model, dict(_ADSORBENT_MODELS["Carbon(HK)"]), model.endswith("CY"), esig,
                              {"T": 77.355, "adsorbate": ads_model, "material_name": "Carbon(HK)", "pressure": ps, "loading": load, "p_limits": lim, "branch": "ads"}, "psd_microporous")
                lines.append(f"hkdispatch {model}")
                plan.append(("dispatch", (model.startswith("RY"), None if entry_rec is None else entry_rec["cy"])))
                rec[:] = [entry_rec] if entry_rec else []
                if len(loose) < 3 or not (set(strict) <= set(used) <= set(loose)):
                    ck.fail_case({"model": model, "geometry": geo, "clause": "points used are not the points inside the pressure limits"}, {"pressure": ps, "limits": lim, "used": [a, b]})
                elif rec and not np.allclose(rec[0]["p"], np.array(ps)[a:b + 1], rtol=1e-12):
                    ck.fail_case({"model": model, "geometry": geo, "clause": "solver received other pressures than the selected ones"}, {"pressure": ps, "limits": lim})
                got = ("ok", a, b)
            except CalculationError:
                got = ("refused",)
                if len(strict) >= 3:
                    ck.fail_case({"model": model, "geometry": geo, "clause": "refused although three or more points lie strictly inside the limits"}, {"pressure": ps, "limits": lim})
            lines.append(f"win micro {'N' if lim is None else 'L'} {optq(None if lim is None else lim[0])} {optq(None if lim is None else lim[1])} {qlist(ps)} []")
            plan.append(("win", got))
        # ------------------------------------------------------------------ adsorbate parameters taken from the isotherm (no explicit dictionary), several temperatures in one session
        ads_n2 = pg.Adsorbate.find("N2")
        for T in (77.355, 87.3, 70.0, 77.355):
            ps = sorted({logu(rng, 1e-6, 0.15) for _ in range(12)})
            whole = rng.random() < 0.5
            load = [float(x) for x in np.cumsum([rng.randint(1, 4) if whole else rng.uniform(0.05, 1) for _ in ps])]
            how = rng.choice(ISO_INT if whole else ISO_FLOAT)
            iso = synth_isotherm(ps, load, T, how)
            ck.count(("entry-db-params", T, how), bucket="entry point:adsorbate parameters from the isotherm")
            try:
                res = pgc.psd_microporous(iso, psd_model="HK", pore_geometry="slit", branch="ads", material_model="Carbon(HK)", p_limits=(None, 0.2))
            except Exception as e:  # noqa
                ck.fail_case({"model": "HK", "geometry": "slit", "clause": "entry point raises", "error": type(e).__name__}, {"T": T, "error": repr(e)[:200]})
                continue
            a, b = int(res["limits"][0]), int(res["limits"][1])
            want = [x * ads_n2.molar_mass() / pg.Adsorbate.find("N2").liquid_density(T) / 1000 for x in load[a:b + 1]][1:]
            cum = [float(x) for x in res["pore_volume_cumulative"]]
            if len(cum) != len(want) or max(relerr(x, y) for x, y in zip(cum, want)) > 1e-9:
                ck.fail_case({"model": "HK", "geometry": "slit", "clause": "cumulative pore volume is not the adsorbed amount as liquid volume", "entry": "psd_microporous without adsorbate_model",
                              "loading_dtype": "integer" if whole and how != "whole-number floats" else "float"},
                             {"T": T, "pressure": ps, "loading": load, "loading_column_given_as": how, "got": cum[:3], "expected": want[:3]})
    finally:
        pm._solve_hk, pm._solve_hk_cy = orig_hk, orig_cy

    tv_run(ck, cases, tol=1e-10)
    n_dis = 0
    try:
        replies = ck.drive("Char", lines) if lines else []
    except Exception as e:
        replies = None
        ck.broken.append({"step": "driver Char", "what": str(e)[:600]})
    if replies is not None:
        for (what, data), rep, line in zip(plan, replies, lines):
            t = rep.split()
            ck.count(("corr", what), nontrivial=False, bucket="correspondence:" + what)
            if what == "win":
                ok = (t[0] == "refused" and data[0] == "refused") or (t[0] == "ok" and data[0] == "ok" and (int(t[1]), int(t[2])) == data[1:])
            elif what == "dispatch":
                ok = t[0] == "ok" and t[1] == str(data[0]).lower() and (data[1] is None or t[2] == str(data[1]).lower())
            elif what == "hkwidth":
                ok = t[0] == "ok" and abs(float(parse_qlist("[" + t[1] + "]")[0]) - data) <= 1e-12
            elif what == "hksolve":              # the model loop with the measured single-point widths = the library's loop on the whole sequence
                got = [float(x) for x in parse_qlist(t[1])] if t[0] == "ok" and len(t) == 2 else None
                ok = got is not None and len(got) == len(data[0]) and all(abs(x - y) <= PER_POINT_TOL for x, y in zip(got, data[0]))
                data = {"library_widths": data[0], "model": data[1]["model"], "geometry": data[1]["geometry"], "order": data[1].get("order")}
            else:
                arrs = [parse_qlist(x) for x in t[1:4]] if t[0] == "ok" else None
                ok = arrs is not None and all(len(a) == len(b) and all(abs(float(x) - float(y)) <= 1e-9 * max(1e-300, abs(float(y)), max(abs(float(z)) for z in b)) for x, y in zip(a, b)) for a, b in zip(arrs, data))
            if not ok:
                n_dis += 1
                if n_dis <= 3:
                    ck.broken.append({"step": f"correspondence Model/Micro.lean ({what})", "what": {"request": line[:300], "model": rep[:300], "implementation": str(data)[:300]}})

    # ------------------------------------------------------------------ Model/HKPot.lean: one batched exact evaluation of all requests
    def drive_pot(rs, op="pot"):
        out = ck.drive("HKPot", [pot_line(x["run"]["kind"], x["run"]["P"], x["l"], op) for x in rs])
        return [pot_value(t) for t in out]

    budget = 150.0 if thorough else 30.0                      # estimated seconds of exact arithmetic (Rege-Yang cylinders above ~4 nm are expensive)
    for x in reqs:
        x["cost"] = pot_cost(x["run"]["kind"], x["l"])
    order = sorted(range(len(reqs)), key=lambda k: (reqs[k]["role"] != "corr", reqs[k]["cost"], k))
    chosen, spent = [], 0.0
    for k in order:
        if spent + reqs[k]["cost"] <= budget:
            spent += reqs[k]["cost"]
            chosen.append(reqs[k])
        else:
            ck.count(("model-cost", k), nontrivial=False, bucket="model certificate: skipped (cost of exact evaluation)")
    exact_probe = [x for x in chosen if x["run"]["kind"] in ("ryslit", "rysph")][:6]        # the same requests printed in full: checks the truncated output format
    n_pot_dis, broken_runs, model_failed = 0, [], {}
    import time
    t_pot = time.time()
    try:
        vals = drive_pot(chosen) if chosen else []
        full = drive_pot(exact_probe, "potq") if exact_probe else []
    except Exception as e:
        vals = full = None
        ck.broken.append({"step": "driver HKPot", "what": str(e)[:600]})
    ck.cov["model_potential_driver_wall_s"] = round(time.time() - t_pot, 1)
    if vals is not None:
        by_id = {id(x): v for x, v in zip(chosen, vals)}
        for x, v in zip(exact_probe, full):
            if v is None or by_id[id(x)] is None or abs(v - by_id[id(x)]) > 1e-15 * abs(v):
                ck.broken.append({"step": "driver HKPot output", "what": {"request": pot_line(x["run"]["kind"], x["run"]["P"], x["l"])[:300], "exact": v, "truncated": by_id[id(x)]}})
        for x, vm in zip(chosen, vals):
            run_ = x["run"]
            kind = run_["kind"]
            ck.count(("pot", kind, x["role"], x["l"]), bucket=f"model potential:{kind}:" + ("correspondence point" if x["role"] == "corr" else "reported width"))
            if vm is None:
                ck.broken.append({"step": "driver HKPot", "what": "no value for " + pot_line(kind, run_["P"], x["l"])[:300]})
                continue
            dis = abs(vm - x["py"])
            agree = dis <= CORR_TOL * max(abs(x["py"]), abs(vm), 1e-3)
            if agree:
                note(f"model vs closure (rel):{kind}", dis / max(abs(x["py"]), 1e-3))
            else:
                n_pot_dis += 1
                if run_ not in broken_runs:
                    broken_runs.append(run_)
                if n_pot_dis <= 3:
                    ck.broken.append({"step": f"correspondence Model/HKPot.lean ({kind})", "what": {"l_pore": x["l"], "model_potential": vm, "library_potential": x["py"], "relative": dis / max(abs(vm), 1e-300),
                                                                                                   "psd_model": run_["sig"]["model"], "geometry": run_["geo"], "T": run_["T"], "adsorbate": run_["ads"], "material": run_["mat"]}})
            # (b) certificate on the model potential: the width solves the library's equation; it must solve the method's equation
            if x["role"] == "cert":
                e_m = abs(math.exp(vm - x["corr"]) - x["p"]) / x["p"]
                note(f"model residual:{run_['sig']['model']}:{run_['geo']}", e_m if e_m <= CERT_TOL else 0.0)
                if not agree and (e_m > CERT_TOL or e_m > x["e_c"] + EXCESS_TOL):
                    model_failed.setdefault(id(run_), []).append((e_m - x["e_c"], x, vm, e_m))
        for bad_pts in model_failed.values():                 # one failing input per analysis: the reported width with the largest excess residual
            _, x, vm, e_m = max(bad_pts, key=lambda t: t[0])
            run_ = x["run"]
            ck.fail_case({**run_["sig"], "clause": MODEL_CLAUSE},
                         {**run_["detail"], "index": x["j"], "width_found": x["l"], "pressure_at": x["p"], "relative_residual_model_potential": e_m, "relative_residual_library_potential": x["e_c"],
                          "model_potential": vm, "library_potential": x["py"], "cheng_yang_term": x["corr"], "n_bad": len(bad_pts)})
        # (c) correspondence broken without a failing input yet: look for one.  Pressures are computed from the MODEL potential for the widths
        # where model and library differ most; a root of the method's equation then exists by construction, and the width the library reports must be one.
        todo = [r_ for r_ in broken_runs if id(r_) not in model_failed]
        seen_kinds = []
        for run_ in todo:
            if seen_kinds.count(run_["kind"]) >= 2 or len(seen_kinds) >= 5:
                continue
            seen_kinds.append(run_["kind"])
            kind, bound, d_a, d_m = run_["kind"], run_["bound"], run_["ads"]["molecular_diameter"], run_["mat"]["molecular_diameter"]
            lo = bound * (1 + (SPHERE_MIN_S * 1.1 if run_["geo"] == "sphere" else 5e-3))
            scan = [dict(run=run_, l=float(l)) for l in np.geomspace(lo, 3.0, 28) if conditioned(kind, d_a, d_m, bound, float(l))]
            try:
                sv = drive_pot(scan)
            except Exception as e:
                ck.broken.append({"step": "driver HKPot (search)", "what": str(e)[:400]})
                break
            cand = [(abs(v - float(run_["fun"](x["l"]))), x["l"], v) for x, v in zip(scan, sv) if v is not None and math.log(1e-12) < v < math.log(0.99)]
            cand = sorted(sorted(cand, reverse=True)[:8], key=lambda c: c[2])            # largest disagreements, then by pressure
            cand = [c for k, c in enumerate(cand) if k == 0 or c[2] > cand[k - 1][2] + 1e-9]
            if len(cand) < 3:
                continue
            ps2 = [math.exp(c[2]) for c in cand]
            load2 = list(np.cumsum([1.0] * len(ps2)))
            rec.clear()
            pm._solve_hk, pm._solve_hk_cy = w_hk, w_cy
            try:
                run_["fn"](np.array(ps2), np.array(load2), run_["T"], run_["geo"], run_["ads"], run_["mat"], use_cy=False)
            except Exception:  # noqa  (refusals are reported by the main loop)
                continue
            finally:
                pm._solve_hk, pm._solve_hk_cy = orig_hk, orig_cy
            if len(rec) != 1:
                continue
            r2 = rec[0]
            back = [dict(run=run_, l=float(l)) for l in r2["L"]]
            okc = [conditioned(kind, d_a, d_m, bound, x["l"]) and pot_cost(kind, x["l"]) < 2.0 for x in back]
            try:
                bv = drive_pot([x for x, o in zip(back, okc) if o])
            except Exception as e:
                ck.broken.append({"step": "driver HKPot (search)", "what": str(e)[:400]})
                break
            it = iter(bv)
            for j, (x, o) in enumerate(zip(back, okc)):
                ck.count(("pot-search", kind, j, x["l"]), bucket=f"model potential:{kind}:failing-input search")
                if not o:
                    continue
                vm = next(it)
                if vm is None:
                    continue
                e_c = abs(math.exp(float(r2["fun"](x["l"]))) - ps2[j]) / ps2[j]
                e_m = abs(math.exp(vm) - ps2[j]) / ps2[j]
                if e_c <= CERT_TOL and (e_m > CERT_TOL or e_m > e_c + EXCESS_TOL):
                    ck.fail_case({**run_["sig"], "model": run_["sig"]["family"], "clause": MODEL_CLAUSE, "search": "pressures computed from the model potential for chosen widths"},
                                 {"T": run_["T"], "adsorbate": run_["ads"], "material": run_["mat"], "pressure": ps2, "loading": load2, "chosen_widths": [c[1] for c in cand], "index": j,
                                  "width_found": x["l"], "pressure_at": ps2[j], "relative_residual_model_potential": e_m, "relative_residual_library_potential": e_c,
                                  "model_potential_at_found": vm, "library_potential_at_found": float(r2["fun"](x["l"]))})
                    break
    ck.cov["model_potential_evaluations"] = len(chosen)
    ck.cov["model_potential_cost"] = {"estimated_s": round(spent, 1), "budget_s": budget}
    ck.cov["model_potential_disagreements"] = n_pot_dis
    ck.cov["correspondence_disagreements"] = n_dis + n_pot_dis
    ck.cov["worst"] = {k: float(f"{v:.3g}") for k, v in sorted(worst.items())}
    ck.cov["rule"] = ("adsorbate parameter sets over physical ranges, three built-in adsorbent sets and user dictionaries, 70-300 K, four models x three geometries, 4-30 pressures (log-uniform 1e-7..0.2 or computed "
                      "from the published slit equation for widths between the geometric minimum and 3 nm), 1, 2, 4-30 points handed over in increasing order, with readings that step back, shuffled, reversed or with a "
                      "repeated point (loading an increasing function of pressure); isotherm entry point with any limits, and adsorption branches whose pressures are not increasing (no limits)")
    ck.assumptions += ["scipy.optimize.minimize_scalar (bounded Brent) is numerical: each result is checked by certificate against the recorded potential closure",
                       "solver loop: Model/Micro.lean solveHK / solveHKCY run with the widths the library reports for each point standing first in a call of its own "
                       "(the minimisation as a function of the point is measured, not modelled)",
                       "cylinder / sphere / Rege-Yang potentials: Model/HKPot.lean evaluated exactly at Q against the recorded closures (rel. 1e-9) and used for the certificate; "
                       "pi / asin(d_ads / width) (Rege-Yang cylinder populations) is computed in this harness and enters the model as input; spheres closer than 3 % to the geometric bound "
                       "and Rege-Yang cylinders above ~4 nm (cost of exact series) are covered by the closure certificate only",
                       "physical constants are those of the installed scipy (CODATA 2022 electron mass)"]
