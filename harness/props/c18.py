"""C18 — kernel (DFT) fitting is non-negative and reproduces the isotherm.

Lean: Props/C18.lean over Model/Kernel.lean (kernel-weighted sum, objective, contribution -> distribution -> cumulative volume; run at ℚ
against the real function): linearity, non-negativity, exact combinations have objective 0 and every zero-objective vector reproduces the
isotherm, cumulative = running integral and non-decreasing, convex-combination smoothing keeps non-negativity;
Props/C18/Spline.lean (the smoothing of `bspline` = de Boor's recursion on the clamped knot vector: every sample is a convex combination of
the active control values, so the smoothed distribution is non-negative, the smoothed widths stay in the kernel's range, the curve is
clamped to the first/last control point; run at ℚ against the library on every smoothed fit that is small enough);
Props/C18/Memo.lean (a memo is invisible for every history of calls iff its key determines the cached value: the specification of
history independence that the call sequences below test on the real functions).
SLSQP and the cubic kernel interpolation are numerical: every fit is decided by certificate on the returned arrays, recomputed from a
kernel that is loaded and interpolated HERE (never from the library's caches).  Sequences of fits in one process (same kernel, related
pressure grids: same length and end points, one point moved, subsets, shifted by one point, reversed, the same array object changed in
place, other isotherm on the same grid, other spline order, other kernel on the same grid, other limits through the entry point) are part
of the quick tier: each answer of a sequence has to pass the same certificate, and a repeated call has to repeat its answer.
User kernel files NAMED like a shipped resource (the shipped file name, the bare kernel name, other extension / case / suffix / prefix, a directory
named like the kernel; own random content, ranges ending below and above the shipped kernel's; absolute, relative and unnormalised paths) go through
BOTH entry points (`psd_dft` on an isotherm, `psd_dft_kernel_fit` on arrays): the certificate is computed from THAT file, the two entry points have to
agree bit for bit, pressures outside THAT file's range are refused by both, inside it they are fitted (Props/C18/Memo.lean `resolveKernel_*`:
an argument that is not a registered name is passed on literally; any weaker key shadows the user's file).
Kernel files that CANNOT be loaded (text cell in a late / any column, two cells, duplicated pressure row, text in the pressure column, too few rows) through both
entry points: the first use of a never-seen path is the answer of a fresh interpreter; after the refusal no module-level container of psd_kernel names the file (unless
with the complete kernel of a file that loads), the second use of the unchanged file and the same content at another path give the same outcome, the intact file passes
the certificate afterwards, and at the end of the process every registered kernel has the pore widths of its file (Props/C18/Memo.lean `memoRun_unsound_entry_visible`:
a table entry that is not the function value is what the next call is answered with; `memoRun_eq_map`: from a sound table every history is answered by the function).
"""
import json
import math
import os
import sys
import tempfile

# The fits are small dense problems (77 unknowns at most): BLAS worker threads only spin (measured: 16 threads 20 s, 1 thread 5.5 s for the same 12 fits).
# One thread for this check's interpreter, unless the caller has chosen otherwise; effective only when numpy is not loaded yet (it is loaded by import_pygaps below).
if "numpy" not in sys.modules:
    for _v in ("OPENBLAS_NUM_THREADS", "OMP_NUM_THREADS", "MKL_NUM_THREADS"):
        os.environ.setdefault(_v, "1")

from pgv.charlib import optq, parse_q, parse_qlist, q, qlist, quiet_logging
from pgv.core import import_pygaps
from pgv.models import logu, relerr


def run(ck):
    pg = import_pygaps()
    import numpy as np
    import pandas as pd
    import pygaps.characterisation as pgc
    import pygaps.characterisation.psd_kernel as pk
    from pygaps.data import KERNELS
    from pygaps.utilities.exceptions import CalculationError, ParameterError
    quiet_logging()
    np.seterr(all="ignore")
    rng = ck.rng
    thorough = ck.tier == "thorough"
    N = ck.n(12, 60)
    worst = {}
    lines, plan = [], []
    bs_lines, bs_plan = [], []

    _reported = {}

    def fail_case(sig, detail):
        """at most two replay files per signature (a broken history fails the same way at every step; the replay test is on the signature)"""
        key = json.dumps(sig, sort_keys=True, default=str)
        _reported[key] = _reported.get(key, 0) + 1
        if _reported[key] <= 2:
            return ck.fail_case(sig, detail)
        if ck.match_known(sig) is None:
            ck.cov["further_failures_with_a_reported_signature"] = ck.cov.get("further_failures_with_a_reported_signature", 0) + 1
        return False

    def note(k, v):
        worst[k] = max(worst.get(k, 0.0), v)
        return v

    shipped = str(KERNELS["DFT-N2-77K-carbon-slit"])
    raw = pd.read_csv(shipped, index_col=0)
    kp = raw.index.values.astype(float)
    widths_shipped = np.asarray(raw.columns, dtype=float)

    # a small user kernel file: 6 pore widths x 14 pressures, Langmuir-like local isotherms with a condensation step
    tmpdir = tempfile.mkdtemp(prefix="pgv-kernel-")
    user_path = os.path.join(tmpdir, "user-kernel.csv")
    uw = [0.5, 0.8, 1.2, 2.0, 3.5, 6.0]
    up = np.geomspace(1e-6, 0.9, 14)
    tab = {str(w): [3.0 * (p * 10 ** (6 - w)) / (1 + p * 10 ** (6 - w)) + w * 2.0 / (1 + math.exp(-(math.log10(p) + 6 - w) * 3)) for p in up] for w in uw}
    pd.DataFrame(tab, index=up).to_csv(user_path, float_format="%.12e")       # fixed format: the twin file below has the same size in bytes

    # a second user kernel with the SAME file name in another directory and other pore widths / pressure range
    tmpdir2 = tempfile.mkdtemp(prefix="pgv-kernel2-")
    user_path2 = os.path.join(tmpdir2, "user-kernel.csv")
    uw2 = [0.6, 1.0, 2.6, 9.5, 12.0, 16.0]        # crosses 10 nm: the column labels do not sort like numbers
    up2 = np.geomspace(1e-5, 0.6, 12)
    tab2 = {str(w): [2.0 * (p * 10 ** (5 - w)) / (1 + p * 10 ** (5 - w)) + w * 1.5 / (1 + math.exp(-(math.log10(p) + 5 - w) * 3)) for p in up2] for w in uw2}
    pd.DataFrame(tab2, index=up2).to_csv(user_path2)

    # a third, tiny user kernel: 3 pore widths (a requested spline order 3 is clipped to 2), 8 pressures
    tmpdir3 = tempfile.mkdtemp(prefix="pgv-kernel3-")
    user_path3 = os.path.join(tmpdir3, "tiny-kernel.csv")
    uw3 = [0.7, 1.5, 4.0]
    up3 = np.geomspace(2e-6, 0.8, 8)
    tab3 = {str(w): [2.5 * (p * 10 ** (5.5 - w)) / (1 + p * 10 ** (5.5 - w)) + w * 1.2 / (1 + math.exp(-(math.log10(p) + 5.5 - w) * 2.5)) for p in up3] for w in uw3}
    pd.DataFrame(tab3, index=up3).to_csv(user_path3)
    # a TWIN of the first user kernel: another directory, the same file name, pore widths, pressures, shape and size in bytes (and written in the same second),
    # other loadings.  Nothing but the full path (or the content) tells the two files apart: whatever is kept per kernel under a weaker key mixes them up.
    tmpdir4 = tempfile.mkdtemp(prefix="pgv-kernel4-")
    twin_path = os.path.join(tmpdir4, "user-kernel.csv")
    tab4 = {str(w): [2.0 * (p * 10 ** (5.6 - w)) / (1 + p * 10 ** (5.6 - w)) + w * 1.4 / (1 + math.exp(-(math.log10(p) + 6.3 - w) * 2.2)) for p in up] for w in uw}
    pd.DataFrame(tab4, index=up).to_csv(twin_path, float_format="%.12e")
    twin_same_size = os.path.getsize(user_path) == os.path.getsize(twin_path)
    KERNEL_FILES = {"shipped": (shipped, widths_shipped, float(kp[0]), float(kp[-1])), "user": (user_path, np.array(uw), float(up[0]), float(up[-1])),
                    "user2": (user_path2, np.array(uw2), float(up2[0]), float(up2[-1])), "user3": (user_path3, np.array(uw3), float(up3[0]), float(up3[-1])),
                    "twin": (twin_path, np.array(uw), float(up[0]), float(up[-1]))}

    # NAMESAKES: user kernel files whose NAME coincides with (or resembles) the name of a shipped resource - what one gets by copying the shipped kernel to a working
    # directory and editing it.  A kernel argument that is not a registered kernel NAME is a path and denotes THAT file, through every entry point: whatever resolves
    # the argument by file name, stem, case-folded name or directory name answers with the shipped kernel (other pore widths, other pressure range) instead.
    # Every file has its own random content: 4-7 pore widths (never the shipped number), a pressure range that ends well below the shipped kernel's (0.3-0.7: pressures
    # between the file's top and the shipped top must be refused) or above it (pressures between the shipped top and the file's top must be fitted).
    import shutil
    ns_root = tempfile.mkdtemp(prefix="pgv-namesake-")
    used_kernel_args = set()
    NAMESAKES = []                                   # keys of KERNEL_FILES
    NS_INFO = {}                                     # key -> (how the file name relates to the shipped name, shipped kernel name)

    def synth_kernel_file(path, top):
        nw = rng.randint(4, 7)
        ws = [round(rng.uniform(0.4, 0.7), 2)]
        while len(ws) < nw:
            ws.append(round(ws[-1] + rng.uniform(0.25, 0.9), 2))
        pr = np.geomspace(10 ** rng.uniform(-6.3, -5.0), top, rng.randint(11, 14))
        a, s, c, g = rng.uniform(2.0, 3.2), rng.uniform(5.4, 6.1), rng.uniform(1.2, 2.1), rng.uniform(2.2, 3.1)
        tb = {str(w): [a * (p * 10 ** (s - w)) / (1 + p * 10 ** (s - w)) + w * c / (1 + math.exp(-(math.log10(p) + s - w) * g)) for p in pr] for w in ws}
        os.makedirs(os.path.dirname(path), exist_ok=True)
        pd.DataFrame(tb, index=pr).to_csv(path)
        return path, np.array(ws), float(pr[0]), float(pr[-1])

    for ki, (k_name, k_res) in enumerate(sorted(KERNELS.items(), key=lambda kv: str(kv[0]))):
        k_file = os.path.basename(str(k_res))
        k_stem, k_ext = os.path.splitext(k_file)
        shipped_top = float(pd.read_csv(str(k_res), index_col=0).index.values.astype(float)[-1])
        forms = [("the shipped kernel's file name", k_file), ("the shipped kernel's name without extension", str(k_name)), ("the shipped kernel's name with another extension", k_stem + rng.choice([".txt", ".dat", ".kernel"])),
                 ("the shipped kernel's file name in lower case", k_file.lower()), ("the shipped kernel's file name in upper case", k_file.upper()),
                 ("a directory named like the shipped kernel", os.path.join(str(k_name), rng.choice(["kernel.csv", "my-kernel.csv", "k.csv"]))),
                 ("the shipped kernel's file name with a suffix", k_file + rng.choice([".bak", ".edited", "~"])), ("the shipped kernel's file name with a prefix", rng.choice(["my-", "edited_", "2-"]) + k_file)]
        # every name with a range that ends below the shipped kernel's; the first two names and one other also with a range that reaches above it
        wide = {0, 1, rng.randrange(2, len(forms))} if shipped_top < 0.9999 else set()
        for fi, (how, fname) in enumerate(forms):
            for vi, top in enumerate([rng.uniform(0.3, 0.7)] + ([min(0.99995, shipped_top + (1 - shipped_top) * rng.uniform(0.3, 0.9))] if fi in wide else [])):
                key = f"namesake{ki}.{fi}.{vi}"
                KERNEL_FILES[key] = synth_kernel_file(os.path.join(ns_root, f"d{ki}-{fi}-{vi}", fname), top)
                NAMESAKES.append(key)
                NS_INFO[key] = (how, str(k_name), str(k_res), shipped_top)

    def bspline_ref(xs, ys, degree, m=100):
        """the open B-spline of `bspline` by de Boor's recursion (the arithmetic of Model/Kernel.lean `bsplineCurve`, in floats): no scipy"""
        n = len(xs)
        p = min(max(int(degree), 1), n - 1)

        def knot(i):
            return float(min(max(i, p), n) - p)
        ox, oy = [], []
        for i in range(m):
            x = (n - p) * i / (m - 1)
            k = p
            while k < n - 1 and not x <= knot(k + 1):
                k += 1

            def de_boor(c, r, j):
                if r == 0:
                    return float(c[j])
                a = (x - knot(j)) / (knot(j + p - r + 1) - knot(j))
                return (1 - a) * de_boor(c, r - 1, j - 1) + a * de_boor(c, r - 1, j)
            ox.append(de_boor(xs, p, k))
            oy.append(de_boor(ys, p, k))
        return np.array(ox), np.array(oy)

    from scipy import interpolate as _ip
    _own = {}

    def own_kernel(path):
        """the kernel of THIS file, built here (same construction as the library: a zero row in front, cubic interpolation per column)"""
        if path not in _own:
            rk = pd.read_csv(path, index_col=0)
            rk = pd.concat([pd.DataFrame([[0 for _ in rk.columns]], index=[0], columns=rk.columns), rk])
            _own[path] = {c: _ip.interp1d(rk[c].index, rk[c].values, kind="cubic") for c in rk}
        return _own[path]

    # Tolerance of the exact-combination clause, measured on the unchanged tree (SLSQP, ftol = 1e-4 ABSOLUTE on the sum of squares, start vector 0; 6400 random
    # sparse combinations on 3-40 points over all four kernel files): the L2 misfit is below 0.062 whenever |loading|_2 < 7.5 (the optimiser stops on an absolute
    # change of the objective: an isotherm whose sum of squares is below ftol is answered by the start vector, relative error 1.0) and below 0.0062 |loading|_2 above.
    #   misfit <= max(0.15, 2e-2 |loading|_2)        (worst measured ratio to this bound: 0.41)
    # For |loading|_2 >= 7.5 this is the relative 2e-2 of the first version of this check; below, a relative statement is ill-posed.
    REL_TOL, ABS_TOL = 2e-2, 0.15

    def verify(res, path, pressure, loading, order, weights, sig, detail, widths0, base=None):
        """certificate on the arrays returned by one fit (`res` = widths, distribution, cumulative, fitted isotherm); `base` = the arrays
        returned for the same data with spline order 0 (when `order` > 0)"""
        w, dist, cum, kl = (np.asarray(a, dtype=float) for a in res)
        pressure = np.asarray(pressure, dtype=float)
        loading = np.asarray(loading, dtype=float)
        scale = float(np.max(np.abs(dist))) or 1.0
        if np.min(dist) < -1e-9 * scale:
            fail_case({**sig, "clause": "pore size distribution has negative entries"}, {**detail, "min": float(np.min(dist)), "max": scale})
        if len(w) != len(dist) or len(cum) != len(dist):
            fail_case({**sig, "clause": "returned arrays have different lengths"}, {**detail, "lengths": [len(w), len(dist), len(cum)]})
            return None
        dw = np.ediff1d(w, to_begin=w[0])
        e = float(np.max(np.abs(cum - np.cumsum(dist * dw))) / max(float(np.max(np.abs(cum))), 1e-300))
        note("cumulative = running integral", e)
        if not (e <= 1e-12):
            fail_case({**sig, "clause": "cumulative pore volume is not the running integral of the reported distribution"}, {**detail, "worst": e})
        if np.any(np.diff(cum) < -1e-9 * max(float(np.max(np.abs(cum))), 1e-300)):
            fail_case({**sig, "clause": "cumulative pore volume decreases"}, {**detail, "cumulative": cum[:8].tolist()})
        if len(kl) != len(pressure):
            fail_case({**sig, "clause": "fitted isotherm has another length than the data"}, {**detail, "got": len(kl), "expected": len(pressure)})
            return None
        kernel = own_kernel(path)
        kpts = np.asarray([kernel[size](pressure) for size in kernel])
        if order == 0:
            if len(w) != len(widths0) or not np.allclose(w, widths0):
                fail_case({**sig, "clause": "reported pore widths are not those of the kernel file"}, {**detail, "got": w[:6].tolist(), "expected": list(widths0[:6])})
                return None
            # reported distribution x width increments are the contributions: their kernel-weighted sum is the reported fitted isotherm
            x = dist * np.ediff1d(widths0, to_begin=widths0[0])
            e = float(np.max(np.abs(kpts.T @ x - kl)) / max(float(np.max(np.abs(kl))), 1e-300))
            note("kernel-weighted sum = fitted isotherm", e)
            if not (e <= 1e-10):
                fail_case({**sig, "clause": "kernel-weighted sum of the distribution is not the reported fitted isotherm"}, {**detail, "worst": e})
            if len(widths0) <= 8 and len(pressure) <= 14 and len(lines) < 400:
                lines.append("kl " + " ".join(qlist(r) for r in kpts) + " | " + qlist(x))
                plan.append(("kl", kl))
                lines.append(f"dist {qlist(x)} {qlist(widths0)}")
                plan.append(("dist", (dist, cum)))
        elif base is not None:
            w0, d0, _, kl0 = (np.asarray(a, dtype=float) for a in base)
            # the smoothing acts on the distribution only: the fitted isotherm is the one of the unsmoothed fit of the same data
            if len(kl0) != len(kl) or not np.array_equal(kl0, kl):
                fail_case({**sig, "clause": "fitted isotherm depends on the spline order"}, {**detail, "max_difference": float(np.max(np.abs(kl0 - kl))) if len(kl0) == len(kl) else None})
            elif len(w0) == len(widths0):
                rw, rd = bspline_ref(w0, d0, order)
                sc_w, sc_d = float(np.max(np.abs(rw))), max(float(np.max(np.abs(rd))), 1e-300)
                if len(w) != len(rw):
                    fail_case({**sig, "clause": "smoothed distribution is not the B-spline (requested order) of the unsmoothed distribution", "how": "number of samples"}, {**detail, "got": len(w), "expected": len(rw)})
                else:
                    e = max(float(np.max(np.abs(w - rw))) / sc_w, float(np.max(np.abs(dist - rd))) / sc_d)
                    note("smoothed distribution = de Boor recursion on the unsmoothed one", e)
                    if not (e <= 1e-9):
                        fail_case({**sig, "clause": "smoothed distribution is not the B-spline (requested order) of the unsmoothed distribution"},
                                     {**detail, "worst_relative_difference": e, "widths_head": w[:4].tolist(), "expected_widths_head": rw[:4].tolist(),
                                      "distribution_at_worst": [float(dist[int(np.argmax(np.abs(dist - rd)))]), float(rd[int(np.argmax(np.abs(dist - rd)))])]})
                    # theorems bsplineCurve_widths_mem_Icc / bsplineCurve_ends / bsplineCurve_nonneg on the real arrays
                    if w[0] != w0[0] or abs(w[-1] - w0[-1]) > 1e-12 * abs(w0[-1]) or np.min(w) < w0[0] * (1 - 1e-12) or np.max(w) > w0[-1] * (1 + 1e-12):
                        fail_case({**sig, "clause": "smoothed pore widths leave the range of the kernel's pore widths"}, {**detail, "got": [float(np.min(w)), float(np.max(w))], "kernel": [float(w0[0]), float(w0[-1])]})
                    if len(w0) <= 8 or len(bs_lines) < ck.n(3, 10):
                        bs_lines.append(f"bs {int(order)} {len(w)} {qlist(w0)} {qlist(d0)}")
                        bs_plan.append((w, dist))
        nl = float(np.linalg.norm(loading))
        e_abs = float(np.linalg.norm(kl - loading))
        # the answer is never worse than the optimiser's start vector 0 (objective |loading|^2)
        if not (e_abs <= nl * (1 + 1e-9) + 1e-12):
            fail_case({**sig, "clause": "fitted isotherm is further from the data than the zero isotherm the optimiser starts from"}, {**detail, "residual_l2": e_abs, "data_l2": nl})
        if weights is not None:
            dense = bool(np.count_nonzero(weights) > 20)
            small = nl * REL_TOL < ABS_TOL
            # class of the INPUT (not of the outcome): the size of the generating weights.  Weights up to 1 (with the shipped kernel: pore volumes up to
            # 1 cm3/g per width, loadings of the size of real isotherms) are reproduced on the unchanged tree (58 000 sparse combinations, worst ratio to the bound 0.43);
            # with larger weights SLSQP stops early on a part of the inputs (known findings S45-C18a/b).
            largest = "above 1" if float(np.max(weights)) > 1.0 else "at most 1"
            if small:
                ck.count(("small-input", sig.get("kernel")), nontrivial=False, bucket="exact combination with |loading| < 7.5 (absolute tolerance of the optimiser decides)")
            if largest == "above 1":
                note("exact combination, some weight above 1 (known findings S45-C18a/b): ratio of the fit error to the bound", e_abs / max(ABS_TOL, REL_TOL * nl))
            elif small:
                note("exact combination: absolute fit error of small inputs", e_abs)
            else:
                note(f"exact combination: fit error (order {order})", e_abs / nl)
            if not (e_abs <= max(ABS_TOL, REL_TOL * nl)):
                fail_case({**sig, "clause": "fitted isotherm does not match an exact non-negative combination of kernel isotherms", "dense_combination": dense, "largest_weight": largest},
                             {**detail, "relative_l2_error": e_abs / max(nl, 1e-300), "absolute_l2_error": e_abs, "loading_l2": nl, "largest_weight_value": float(np.max(weights))})
        return w, dist, cum, kl

    def fit(path, pressure, loading, order, sig, detail):
        """one call of the backend; None when it refuses"""
        try:
            return pk.psd_dft_kernel_fit(pressure, loading, path, bspline_order=order)
        except CalculationError:
            ck.count(("fit-refused", sig["kernel"]), nontrivial=False, bucket="fit refused (optimiser reports failure)")
            return None
        except Exception as e:  # noqa
            fail_case({**sig, "clause": "fit raises a non-pyGAPS error", "error": type(e).__name__}, {**detail, "error": repr(e)[:300]})
            return None

    def certificate(path, pressure, loading, order, weights, sig, detail, widths0):
        res = fit(path, np.array(pressure), np.array(loading), order, sig, detail)
        if res is None:
            return None
        base = None
        if order != 0:
            # the unsmoothed fit of the same data: reference of the smoothing (and itself certified)
            base = fit(path, np.array(pressure), np.array(loading), 0, sig, detail)
            if base is not None:
                verify(base, path, pressure, loading, 0, weights, {**sig, "bspline_order": 0, "as_reference_of_order": order}, detail, widths0)
        return verify(res, path, pressure, loading, order, weights, sig, detail, widths0, base=base)

    def combo(path, pressure, weights):
        kernel = own_kernel(path)
        return np.asarray([kernel[size](np.asarray(pressure, dtype=float)) for size in kernel]).T @ weights

    # The fit is not scale covariant (Props/C18/Scale.lean: the specification - the set of minimisers - is).  The histories and the first loop keep the weights in
    # 0.05 .. 1; the "scale sweep" below multiplies sparse weight vectors by 1e-7 .. 2e3 and balances them against the size of the kernel columns:
    #   * small side (isotherms whose sum of squares is near the optimiser's ABSOLUTE ftol = 1e-4, answered by the start vector 0): inside the property as written
    #     ("matches the input to within the optimiser tolerance": the tolerance is absolute), decided by ABS_TOL; not a finding;
    #   * large side (some weight above 1): SLSQP reports success far from the minimum on a part of the inputs: known findings S45-C18a (shipped kernel) and
    #     S45-C18b (user kernels; columns of very different size), siblings of S38, same root.
    # NOT generated (outside the quantifier): a kernel file REWRITTEN under the same path during the process is answered from `_LOADED` (the hypothesis "one content
    # per path" of Props/C18/Memo.lean `loaded_cache_transparent`); by design of the cache, the property's quantifier does not include files that change.
    def sparse_weights(nw, k=None):
        wts = np.zeros(nw)
        for j in rng.sample(range(nw), k or rng.randint(1, min(4, nw))):
            wts[j] = rng.uniform(0.05, 1.0)
        return wts

    try:
        for i in range(N):
            user = i % 3 == 2
            if user and i % 2 == 1:
                path, widths0, plo, phi = user_path2, np.array(uw2), up2[0], up2[-1]
            else:
                path, widths0, plo, phi = (user_path, np.array(uw), up[0], up[-1]) if user else (shipped, widths_shipped, kp[0], kp[-1])
            nw = len(widths0)
            kernel = own_kernel(path)
            sparse = rng.random() < 0.6
            wts = np.zeros(nw)
            for j in (rng.sample(range(nw), rng.randint(1, 4)) if sparse else range(nw)):
                wts[j] = rng.uniform(0.05, 1.0) * (1.0 if sparse else rng.random() < 0.7)
            npts = rng.choice([12, 14]) if user else rng.choice([25, 40, 60])
            pressure = sorted({logu(rng, max(plo, 1e-7) * 1.01, phi * 0.99) for _ in range(npts)})
            kpts = np.asarray([kernel[size](np.array(pressure)) for size in kernel])
            loading = kpts.T @ wts
            order = rng.choice([0, 0, 1, 2, 3])
            sig = {"kernel": "user" if user else "shipped", "bspline_order": order}
            detail = {"weights": {str(widths0[j]): float(wts[j]) for j in range(nw) if wts[j] > 0}, "n_points": len(pressure), "pressure_head": pressure[:4]}
            ck.count(("fit", sig["kernel"], order, sparse, i), bucket=f"exact combination:{sig['kernel']}:order {order}:{'sparse' if sparse else 'dense'}",
                     sample={**sig, **detail} if i % 6 == 0 else None)
            certificate(path, pressure, loading.tolist(), order, wts, sig, detail, widths0)
            # arbitrary (non-combination) increasing data: non-negativity, cumulative, kernel sum
            if i % 2 == 0:
                load2 = np.cumsum([rng.uniform(0, 1) for _ in pressure])
                ck.count(("fit-arb", sig["kernel"], order, i), bucket=f"arbitrary data:{sig['kernel']}:order {order}")
                certificate(path, pressure, load2.tolist(), order, None, sig, {"n_points": len(pressure), "loading_head": load2[:4].tolist()}, widths0)

        def kname(k):
            return "shipped" if k == "shipped" else "user"

        # ------------------------------------------------------------------ scale sweep: the same sparse combinations at other magnitudes
        # (Props/C18/Scale.lean `isMinimiser_smul`: the minimisers of s x isotherm are s x the minimisers of the isotherm, so the property is the same statement at every scale)
        #   tiny      weights x 1e-7 .. 1e-4: |loading|_2 < 0.1, the absolute side of the tolerance (the answer may be the start vector 0; never worse than that)
        #   large     weights x 3 .. 2000
        #   balanced  weight of a width = (0.05 .. 1) x M / (largest value of its kernel column on the grid), M = 10 .. 3000: every chosen width contributes a loading of
        #             the same order whatever the size of its column (columns of the harness-made user kernels span 12 orders of magnitude)
        # Measured on the unchanged tree (45 586 combinations with all weights <= 1 of this generator): worst ratio to the bound 0.31, no refusal, no other clause fails.
        def scale_case(k, P, wts, order, mode):
            path, widths0, _, _ = KERNEL_FILES[k]
            sig = {"kernel": kname(k), "bspline_order": order}
            detail = {"kernel_file": os.path.basename(path), "generator": "scale sweep: " + mode, "weights": {str(widths0[j]): float(wts[j]) for j in range(len(widths0)) if wts[j] > 0},
                      "n_points": len(P), "pressure": [float(v) for v in P]}
            ck.count(("scale", k, mode, order, len(P), float(np.max(wts))), bucket=f"scale sweep:{kname(k)}:{mode}:largest weight {'above 1' if np.max(wts) > 1 else 'at most 1'}")
            certificate(path, P, combo(path, P, wts), order, wts, sig, detail, widths0)

        # two fixed members of the region (the reproductions of probes/agent_notes/S-C18.md), then the random sweep
        w_fix = np.zeros(len(widths_shipped))
        w_fix[10] = 30.0
        scale_case("shipped", kp[20:170:5].copy(), w_fix, 0, "large (fixed: 30 x the kernel isotherm of the 11th width on the kernel's own pressures)")
        w_fix = np.zeros(len(uw2))
        w_fix[3] = 1e5
        scale_case("user2", up2[1:-1].copy(), w_fix, 0, "balanced (fixed: weight 1e5 on the width 9.5, whose column is 1e5 times smaller than the others)")
        for i in range(ck.n(24, 90)):
            k = rng.choice(["shipped", "shipped", "user", "user2", "user3", "twin"])
            path, widths0, plo, phi = KERNEL_FILES[k]
            npts = {"shipped": rng.choice([25, 40, 60]), "user": rng.choice([12, 14]), "twin": rng.choice([12, 14]), "user2": rng.choice([10, 12]), "user3": 8}[k]
            P = np.array(sorted({logu(rng, max(plo, 1e-7) * 1.01, phi * 0.99) for _ in range(npts)}))
            wts = sparse_weights(len(widths0))
            mode = rng.choice(["tiny", "large", "balanced"])
            if mode == "tiny":
                wts = wts * 10 ** rng.uniform(-7, -4)
            elif mode == "large":
                wts = wts * 10 ** rng.uniform(0.5, 3.3)
            else:
                kernel = own_kernel(path)
                M = 10 ** rng.uniform(1, 3.5)
                for j, size in enumerate(kernel):
                    if wts[j] > 0:
                        top = float(np.max(np.abs(kernel[size](P))))
                        wts[j] = wts[j] * M / top if top > 0 else 0.0
                if not np.any(wts > 0):
                    continue
            scale_case(k, P, wts, rng.choice([0, 0, 2]), mode)

        # ------------------------------------------------------------------ histories: sequences of fits in ONE process on related pressure grids
        # (Props/C18/Memo.lean: whatever is kept between calls must be invisible; every answer of a history passes the certificate of a single fit)

        def related_grids(G, top):
            n = len(G)
            out = []
            inner = sorted(logu(rng, G[0], G[-1]) for _ in range(n - 2))
            out.append(("same length and end points, other interior points", np.array([G[0]] + inner + [G[-1]])))
            j = rng.randrange(1, n - 1)
            H = G.copy()
            H[j] = math.sqrt(G[j - 1] * G[j]) if rng.random() < 0.5 else math.sqrt(G[j] * G[j + 1])
            out.append(("one interior point moved", H))
            nk = max(1, (n - 2) * 2 // 3)
            keep = sorted(rng.sample(range(1, n - 1), nk))
            out.append(("subset with the same end points", G[[0] + keep + [n - 1]]))
            keep2 = sorted(rng.sample(range(1, n - 1), nk))
            out.append(("another subset of the same size with the same end points", G[[0] + keep2 + [n - 1]]))
            out.append(("shifted by one point (first dropped)", G[1:].copy()))
            out.append(("shifted by one point (last dropped)", G[:-1].copy()))
            out.append(("first dropped and one appended (same length)", np.append(G[1:], [math.sqrt(G[-1] * top)])))
            out.append(("reversed", G[::-1].copy()))
            return out

        def history(k, npts, orders, n_related):
            path, widths0, plo, phi = KERNEL_FILES[k]
            nw = len(widths0)
            G = np.array(sorted({logu(rng, max(plo, 1e-7) * 1.01, phi * 0.98) for _ in range(npts)}))
            w1, w2 = sparse_weights(nw), sparse_weights(nw)
            rel = related_grids(G, phi * 0.99)
            rng.shuffle(rel)
            steps = [("first fit of the history", G, w1)] + [(t, g, w1) for t, g in rel[:n_related]]
            steps.insert(rng.randint(1, len(steps)), ("same grid as the first fit, other isotherm", G.copy(), w2))
            first_order = rng.choice(orders)
            first = None
            done = []
            for pos, (tag, grid, wts) in enumerate(steps + [("first fit repeated at the end of the history", G.copy(), w1)]):
                order = first_order if pos in (0, len(steps)) else rng.choice(orders)
                loading = combo(path, grid, wts)
                sig = {"kernel": kname(k), "bspline_order": order, "history": tag}
                detail = {"kernel_file": os.path.basename(path), "weights": {str(widths0[j]): float(wts[j]) for j in range(nw) if wts[j] > 0}, "n_points": len(grid),
                          "pressure": grid.tolist(), "first_grid": G.tolist(), "earlier_fits": list(done)}
                ck.count(("history", k, tag, order, pos, len(grid)), bucket=f"history:{kname(k)}:{tag}")
                res = certificate(path, grid, loading, order, wts, sig, detail, widths0)
                done.append(tag)
                if pos == 0:
                    first = res
                elif pos == len(steps) and first is not None and res is not None:
                    if not all(np.array_equal(a, b) for a, b in zip(first, res)):
                        fail_case({"kernel": kname(k), "bspline_order": order, "clause": "the same fit gives another answer after other fits in the same process"},
                                     {**detail, "max_difference_fitted_isotherm": float(np.max(np.abs(first[3] - res[3])))})
            # the same array OBJECTS with changed content
            P = G.copy()
            L = combo(path, P, w1)
            order = rng.choice(orders)
            sig = {"kernel": kname(k), "bspline_order": order, "history": "same array objects, content changed in place"}
            detail = {"kernel_file": os.path.basename(path), "n_points": len(P)}
            ck.count(("history-inplace", k, order, len(P)), bucket=f"history:{kname(k)}:same array objects, content changed in place")
            r1 = fit(path, P, L, order, sig, detail)
            j = rng.randrange(1, len(P) - 1)
            P[j] = math.sqrt(P[j] * P[j + 1])
            L[:] = combo(path, P, w2)
            r2 = fit(path, P, L, order, sig, detail)
            if r1 is not None and r2 is not None:
                base = fit(path, P.copy(), L.copy(), 0, sig, detail) if order else None
                verify(r2, path, P, L, order, w2, sig, {**detail, "moved_point": j, "pressure_before": G.tolist(), "pressure": P.tolist(), "weights_before": {str(widths0[i]): float(w1[i]) for i in range(nw) if w1[i] > 0},
                                                     "weights": {str(widths0[i]): float(w2[i]) for i in range(nw) if w2[i] > 0}}, widths0, base=base)

        for rep in range(ck.n(2, 6)):
            for k in ("user", "twin", "user2", "user3"):
                history(k, {"user": 12, "twin": 12, "user2": 11, "user3": 8}[k], [0, 0, 1, 2, 3], 8)
        for rep in range(ck.n(1, 3)):
            history(rng.choice(NAMESAKES), 11, [0, 0, 1, 2, 3], 6)
        for rep in range(ck.n(2, 4)):
            history("shipped", rng.choice([16, 24]), [0, 0, 0, 2, 3], ck.n(4, 8))

        # one grid, every kernel in turn (whatever is kept for a grid must not outlive the kernel it was computed for)
        for rep in range(ck.n(1, 3)):
            lo_c = max(v[2] for v in KERNEL_FILES.values()) * 1.01
            hi_c = min(v[3] for v in KERNEL_FILES.values()) * 0.98
            G = np.array(sorted({logu(rng, lo_c, hi_c) for _ in range(10)}))
            names = ["user", "twin", "user2", "user3", "shipped", "user", "twin", NAMESAKES[0], rng.choice(NAMESAKES[1:])]
            rng.shuffle(names)
            for pos, k in enumerate(names):
                path, widths0, _, _ = KERNEL_FILES[k]
                wts = sparse_weights(len(widths0))
                order = rng.choice([0, 0, 2])
                sig = {"kernel": kname(k), "bspline_order": order, "history": "other kernel on the same grid"}
                detail = {"kernel_file": os.path.basename(path), "kernels_before": names[:pos], "weights": {str(widths0[j]): float(wts[j]) for j in range(len(widths0)) if wts[j] > 0}, "pressure": G.tolist()}
                ck.count(("history-kernels", k, pos, order), bucket="history:other kernel on the same grid")
                certificate(path, G, combo(path, G, wts), order, wts, sig, detail, widths0)

        # ------------------------------------------------------------------ histories through the entry point: one isotherm, changing limits / branch / isotherm
        def iso_of(pp, ll):
            return pg.PointIsotherm(pressure=pp, loading=ll, material="pgv-synth", adsorbate="N2", temperature=77.355, pressure_mode="relative", pressure_unit=None,
                                    loading_basis="molar", loading_unit="mmol", material_basis="mass", material_unit="g", temperature_unit="K")

        def entry(iso, karg, branch, lim, order, sig, detail):
            try:
                return pgc.psd_dft(iso, kernel=karg, branch=branch, p_limits=lim, bspline_order=order)
            except CalculationError:
                ck.count(("entry-refused", sig["kernel"]), nontrivial=False, bucket="fit refused (optimiser reports failure)")
                return None
            except Exception as e:  # noqa
                fail_case({**sig, "clause": "psd_dft raises a non-pyGAPS error", "error": type(e).__name__}, {**detail, "error": repr(e)[:300]})
                return None

        def kernel_arg(path, form=None):
            """the same file as the user may name it: absolute path, path relative to the working directory, path with a redundant component"""
            form = form or rng.choice(["absolute path", "absolute path", "relative path", "path with a redundant component"])
            arg = {"absolute path": path, "relative path": os.path.relpath(path), "path with a redundant component": os.path.join(os.path.dirname(path), ".", os.path.basename(path))}[form]
            used_kernel_args.add(arg)
            return arg, form

        def entry_history(k, npts):
            path, widths0, plo, phi = KERNEL_FILES[k]
            karg = "DFT-N2-77K-carbon-slit" if k == "shipped" else kernel_arg(path)[0] if k in NS_INFO else path
            nw = len(widths0)
            P = np.array(sorted({logu(rng, max(plo, 1e-7) * 1.01, phi * 0.98) for _ in range(npts)}))
            n = len(P)
            w1, w2 = sparse_weights(nw), sparse_weights(nw)
            # desorption branch on another grid, measured downwards from below the last adsorption point
            Pd = np.array(sorted({logu(rng, P[1], P[-2]) for _ in range(max(6, n // 2))}))[::-1]
            iso1 = iso_of(np.concatenate([P, Pd]), np.concatenate([combo(path, P, w1), combo(path, Pd, w2) * 1.0]))
            a = rng.randrange(1, max(2, n // 3))
            b = rng.randrange(n - max(2, n // 3), n - 1)
            # a second isotherm: same pressures at and outside the window ends, other pressures inside the window (same number of points)
            inner = sorted(logu(rng, P[a], P[b]) for _ in range(b - a - 1))
            P2 = np.concatenate([P[:a + 1], inner, P[b:]])
            iso2 = iso_of(P2, combo(path, P2, w1))
            steps = [("ads", iso1, P, w1, a, b), ("ads", iso1, P, w1, a + 1, b), ("ads", iso1, P, w1, a, b - 1), ("ads", iso2, P2, w1, a, b), ("ads", iso1, P, w1, None, b),
                     ("ads", iso1, P, w1, a, None), ("ads", iso1, P, w1, None, None), ("des", iso1, Pd[::-1], w2, 1, len(Pd) - 2), ("des", iso1, Pd[::-1], w2, None, None)]
            head, rest = steps[0], steps[1:]
            rng.shuffle(rest)
            rest = rest[:ck.n(4, 8)] if k == "shipped" else rest
            for pos, (branch, iso, grid, wts, lo_i, hi_i) in enumerate([head] + rest + [head]):
                lim = (None if lo_i is None else math.sqrt(float(grid[lo_i - 1]) * float(grid[lo_i])), None if hi_i is None else math.sqrt(float(grid[hi_i]) * float(grid[hi_i + 1])))
                ea, eb = (0 if lo_i is None else lo_i), (len(grid) - 1 if hi_i is None else hi_i)
                order = rng.choice([0, 0, 2] if k == "shipped" else [0, 0, 1, 2, 3])
                tag = f"entry point, {branch} branch, limits " + ("none" if lo_i is None and hi_i is None else "lower only" if hi_i is None else "upper only" if lo_i is None else "both") + (", second isotherm" if iso is iso2 else "")
                sig = {"kernel": kname(k), "bspline_order": order, "history": tag}
                if k in NS_INFO:
                    sig["kernel_file_name"] = NS_INFO[k][0]
                detail = {"kernel_file": os.path.basename(path), "kernel_argument": str(karg), "kernel_pressure_range": [float(plo), float(phi)], "limits": lim, "expected_points": [ea, eb], "position_in_history": pos, "n_points": len(grid), "weights": {str(widths0[j]): float(wts[j]) for j in range(nw) if wts[j] > 0},
                          "pressure": grid.tolist(), "branch": branch}
                ck.count(("entry-history", k, tag, order, pos), bucket=f"history:{kname(k)}:{tag}")
                lim_arg = lim if (lo_i, hi_i) != (None, None) or rng.random() < 0.5 else None
                r = entry(iso, karg, branch, lim_arg, order, sig, detail)
                if r is None:
                    continue
                if len(grid) <= 16 and sum(1 for pl in plan if pl[0] == "win") < 60:
                    lines.append(f"win da {'N' if lim_arg is None else 'L'} {optq(lim[0])} {optq(lim[1])} {qlist(grid)} []")
                    plan.append(("win", tuple(int(v) for v in r["limits"])))
                if tuple(int(v) for v in r["limits"]) != (ea, eb):
                    fail_case({**sig, "clause": "points used are not the points inside the pressure limits"}, {**detail, "used": [int(v) for v in r["limits"]]})
                    continue
                base = None
                if order:
                    r0 = entry(iso, karg, branch, lim, 0, sig, detail)
                    base = None if r0 is None else (r0["pore_widths"], r0["pore_distribution"], r0["pore_volume_cumulative"], r0["kernel_loading"])
                used_p = grid[ea:eb + 1]
                verify((r["pore_widths"], r["pore_distribution"], r["pore_volume_cumulative"], r["kernel_loading"]), path, used_p, combo(path, used_p, wts), order, wts, sig, detail, widths0, base=base)

        for rep in range(ck.n(2, 6)):
            entry_history("user", 14)
            entry_history("twin", 14)
            entry_history("user2", 12)
        for rep in range(ck.n(1, 3)):
            entry_history(NAMESAKES[0], 12)
            entry_history(rng.choice(NAMESAKES[1:]), 12)
        for rep in range(ck.n(1, 2)):
            entry_history("shipped", rng.choice([24, 32]))

        # ------------------------------------------------------------------ every entry point with every user kernel file (namesakes of shipped resources first)
        # A kernel argument that is not a registered kernel name denotes the file at that path, for `psd_dft` (isotherm) and for `psd_dft_kernel_fit` (arrays) alike:
        #   (1) an exact combination of THAT file's isotherms inside THAT file's range is fitted (never refused: no refusal in 45 000 combinations with weights <= 1 on the
        #       unchanged tree) and passes the certificate computed from THAT file (its widths, its kernel-weighted sum);
        #   (2) the two entry points give the same arrays for the same argument (the isotherm is stored in the kernel's units: measured bit-identical);
        #   (3) a pressure outside THAT file's range (above its top - mostly still inside the shipped kernel's range -, or negative) is refused by both;
        #   (4) points outside THAT file's range that the user excludes with p_limits are neither refused nor of influence.
        RES_KEYS = ("pore_widths", "pore_distribution", "pore_volume_cumulative", "kernel_loading")

        def arrays(r):
            return tuple(np.asarray(r[kk], dtype=float) for kk in RES_KEYS)

        def user_file_case(k, form=None):
            path, widths0, plo, phi = KERNEL_FILES[k]
            nw = len(widths0)
            karg, form = kernel_arg(path, form)
            order = rng.choice([0, 0, 1, 2, 3])
            sig = {"kernel": "user", "bspline_order": order, "entry_point": "psd_dft", "kernel_argument": form}
            shipped_top = None
            if k in NS_INFO:
                sig["kernel_file_name"] = NS_INFO[k][0]
                shipped_top = NS_INFO[k][3]
            lo = max(plo, 1e-7) * 1.01
            pts = {logu(rng, lo, phi * 0.99) for _ in range(rng.choice([10, 12, 14]))}
            if shipped_top is not None and phi > shipped_top * 1.0005:
                pts.add(rng.uniform(shipped_top * 1.0004, phi * 0.9999))          # inside this file's range, outside the shipped kernel's
            P = np.array(sorted(pts))
            wts = sparse_weights(nw)
            L = combo(path, P, wts)
            detail = {"kernel_file": os.path.basename(path), "kernel_argument": str(karg), "kernel_widths": [float(v) for v in widths0], "kernel_pressure_range": [float(plo), float(phi)],
                      "weights": {str(widths0[j]): float(wts[j]) for j in range(nw) if wts[j] > 0}, "pressure": P.tolist(), "loading": [float(v) for v in L]}
            ck.count(("user-file", k, form, order, len(P)), bucket=f"entry points:user kernel file named {NS_INFO[k][0] if k in NS_INFO else 'unlike any shipped kernel'}:{form}",
                     sample={**sig, **detail} if k == NAMESAKES[0] else None)
            try:
                r = pgc.psd_dft(iso_of(P, L), kernel=karg, branch="ads", bspline_order=order)
            except CalculationError as e:
                fail_case({**sig, "clause": "exact combination inside the kernel file's pressure range refused"}, {**detail, "error": str(e)[:200]})
                r = None
            except Exception as e:  # noqa
                fail_case({**sig, "clause": "psd_dft raises a non-pyGAPS error", "error": type(e).__name__}, {**detail, "error": repr(e)[:300]})
                r = None
            r0 = None
            if r is not None:
                base = None
                if order:
                    r0 = entry(iso_of(P, L), karg, "ads", None, 0, sig, detail)
                    base = None if r0 is None else arrays(r0)
                    if base is not None:
                        verify(base, path, P, L, 0, wts, {**sig, "bspline_order": 0, "as_reference_of_order": order}, detail, widths0)
                else:
                    r0 = r
                verify(arrays(r), path, P, L, order, wts, sig, detail, widths0, base=base)
                rb = fit(karg, P.copy(), L.copy(), order, {**sig, "entry_point": "psd_dft_kernel_fit"}, detail)
                if rb is None:
                    fail_case({**sig, "clause": "the two entry points disagree on the same kernel argument", "how": "psd_dft_kernel_fit refuses what psd_dft fits"}, detail)
                elif not all(len(x) == len(y) and np.array_equal(x, y) for x, y in zip(arrays(r), (np.asarray(v, dtype=float) for v in rb))):
                    fail_case({**sig, "clause": "the two entry points disagree on the same kernel argument"},
                              {**detail, "widths_psd_dft": arrays(r)[0][:8].tolist(), "widths_psd_dft_kernel_fit": np.asarray(rb[0], dtype=float)[:8].tolist()})
            # (3) outside THIS file's range
            hi_cap = 1.0 if phi < 0.999 else phi * 1.001
            above = phi + (hi_cap - phi) * 10 ** rng.uniform(-3, 0) * 0.999
            for bad, side in (([above], "above"), ([-10 ** rng.uniform(-9, -3)], "below")) if rng.random() < 0.5 else (([above], "above"),):
                PP = np.array(sorted(P.tolist() + bad))
                LL = np.linspace(1.0, 2.0, len(PP)) if rng.random() < 0.5 else np.interp(PP, P, L)
                for ep in ("psd_dft", "psd_dft_kernel_fit"):
                    ck.count(("user-file-outside", k, form, side, ep), bucket=f"outside kernel range:user kernel file through {ep}:{side}")
                    d2 = {**detail, "pressure": PP.tolist(), "loading": [float(v) for v in LL], "outside": bad, "inside_the_shipped_kernel_range": bool(shipped_top is not None and 0 <= bad[0] <= shipped_top)}
                    try:
                        if ep == "psd_dft":
                            pgc.psd_dft(iso_of(PP, LL), kernel=karg, branch="ads", bspline_order=0)
                        else:
                            pk.psd_dft_kernel_fit(PP, LL, karg, bspline_order=0)
                        fail_case({"kernel": "user", "entry_point": ep, "kernel_argument": form, **({"kernel_file_name": NS_INFO[k][0]} if k in NS_INFO else {}), "clause": "pressure outside the kernel range accepted", "side": side}, d2)
                    except CalculationError:
                        pass
                    except Exception as e:  # noqa
                        fail_case({"kernel": "user", "entry_point": ep, "clause": "pressure outside the kernel range gives a non-pyGAPS error", "error": type(e).__name__}, {**d2, "error": repr(e)[:300]})
            # (4) excluded by the limits
            if r0 is not None:
                extra = sorted(phi + (hi_cap - phi) * rng.uniform(0.05, 0.95) for _ in range(2))
                PP = np.concatenate([P, extra])
                LL = np.concatenate([L, [L[-1] * 1.1 + 0.1, L[-1] * 1.2 + 0.2]])
                lim = (None, math.sqrt(float(P[-1]) * min(float(extra[0]), phi)))
                ck.count(("user-file-limits", k, form), bucket="entry point: limits exclude points outside the kernel range (user kernel file)")
                d2 = {**detail, "pressure": PP.tolist(), "loading": [float(v) for v in LL], "limits": lim, "extra_points": extra}
                try:
                    rx = pgc.psd_dft(iso_of(PP, LL), kernel=karg, branch="ads", p_limits=lim, bspline_order=0)
                    if not all(np.array_equal(x, y) for x, y in zip(arrays(r0), arrays(rx))):
                        fail_case({**sig, "bspline_order": 0, "clause": "points outside the requested pressure limits influence the result"}, d2)
                except Exception as e:  # noqa
                    fail_case({**sig, "bspline_order": 0, "clause": "points outside the requested pressure limits influence the result", "how": "refused: " + type(e).__name__}, {**d2, "error": str(e)[:200]})

        for k in NAMESAKES:
            user_file_case(k, "absolute path")
        for rep in range(ck.n(4, 16)):
            user_file_case(rng.choice(NAMESAKES))
        for k in ("user", "twin", "user2", "user3"):
            user_file_case(k)

        # the shipped kernel and its namesakes in one process, in every order: by name, by the path of the shipped file, the user's file, by name again
        for k_name, k_res in sorted(KERNELS.items(), key=lambda kv: str(kv[0])):
            mine = [k for k in NAMESAKES if NS_INFO[k][1] == str(k_name)]
            k_user = rng.choice(mine[:2]) if rng.random() < 0.6 else rng.choice(mine)
            u_path, u_widths, u_lo, u_hi = KERNEL_FILES[k_user]
            raw_k = pd.read_csv(str(k_res), index_col=0)
            s_widths, s_p = np.asarray(raw_k.columns, dtype=float), raw_k.index.values.astype(float)
            G = np.array(sorted({logu(rng, max(u_lo, float(s_p[0]), 1e-7) * 1.01, min(u_hi, float(s_p[-1])) * 0.98) for _ in range(12)}))
            steps = [("registered name", str(k_name), str(k_res), s_widths), ("user file named " + NS_INFO[k_user][0], kernel_arg(u_path)[0], u_path, u_widths),
                     ("path of the shipped kernel file", str(k_res), str(k_res), s_widths), ("user file named " + NS_INFO[k_user][0], kernel_arg(u_path)[0], u_path, u_widths)]
            rng.shuffle(steps)
            steps = steps + [steps[0]]
            answers = {}
            for pos, (tag, karg, own, widths0) in enumerate(steps):
                wts_key = (own,)
                if wts_key not in answers:
                    answers[wts_key] = [sparse_weights(len(widths0)), None]
                wts = answers[wts_key][0]
                Lk = combo(own, G, wts)
                order = 0
                sig = {"kernel": "shipped" if own == str(k_res) else "user", "bspline_order": order, "history": "shipped kernel and its namesake in one process: " + tag}
                detail = {"kernel_argument": str(karg), "position_in_history": pos, "arguments_before": [str(st[1]) for st in steps[:pos]], "pressure": G.tolist(),
                          "weights": {str(widths0[j]): float(wts[j]) for j in range(len(widths0)) if wts[j] > 0}}
                ck.count(("namesake-history", tag, pos), bucket="history:shipped kernel and its namesake in one process")
                r = entry(iso_of(G, Lk), karg, "ads", None, order, sig, detail)
                if r is None:
                    continue
                got = verify(arrays(r), own, G, Lk, order, wts, sig, detail, widths0)
                if got is not None:
                    if answers[wts_key][1] is not None and not all(np.array_equal(x, y) for x, y in zip(answers[wts_key][1], got)):
                        fail_case({**sig, "clause": "the same fit gives another answer after other fits in the same process"}, detail)
                    answers[wts_key][1] = got

        # ------------------------------------------------------------------ refused calls leave nothing behind (round 8, C18-m1: STATE LEFT BEHIND BY AN EXCEPTION)
        # A user kernel file that cannot be loaded (a text cell in some column - mostly a LATE one, so that a loader that publishes its table before it is complete has
        # built a part of it -, two such cells, a duplicated pressure row, text in the pressure column, too few rows; measured on the unchanged tree: ValueError / TypeError
        # from inside `_load_kernel`, nothing registered) is refused.  Whatever the library answers at the FIRST use of a path is the answer of a fresh interpreter; then
        #   (1) no module-level container of psd_kernel keeps an entry for that file, unless it is the COMPLETE kernel of a file that loads (checked against a loader of our own);
        #   (2) the second use of the same (unchanged) file gives the same outcome - same error class and message; "accepted" after "refused" is the half-filled kernel;
        #   (3) the same content at another path gives the same outcome (a fresh path: whatever is remembered about failures under a weaker key shows here);
        #   (4) the intact file the content was derived from passes the certificate of a single fit afterwards, and every registered kernel still has the widths of its file.
        # The file is never changed under its path (hypothesis "one content per path" of `loaded_cache_transparent`).
        bk_root = tempfile.mkdtemp(prefix="pgv-broken-")
        bk_paths = []

        def own_loads(path):
            """column labels when a loader of our own (same construction as the library) can build the kernel of this file, else None"""
            try:
                rk = pd.read_csv(path, index_col=0)
                rk = pd.concat([pd.DataFrame([[0 for _ in rk.columns]], index=[0], columns=rk.columns), rk])
                for c in rk:
                    _ip.interp1d(rk[c].index, rk[c].values, kind="cubic")
                return [str(c) for c in rk.columns]
            except Exception:  # noqa
                return None

        def module_entries(path):
            """entries of module-level containers of psd_kernel whose key names this file (by full path or by file name)"""
            base = os.path.basename(path)
            found = []
            for name, obj in list(vars(pk).items()):
                if name.startswith("__"):
                    continue
                if isinstance(obj, dict):
                    found += [(name, kk, vv) for kk, vv in list(obj.items()) if base in str(kk)]
                elif isinstance(obj, (list, set, frozenset, tuple)):
                    found += [(name, kk, None) for kk in list(obj) if isinstance(kk, (str, tuple)) and base in str(kk)]
            return found

        def break_lines(good_lines):
            ncol = len(good_lines[0].split(",")) - 1
            nrow = len(good_lines) - 1
            kind = rng.choice(["text cell in a late column", "text cell in a late column", "text cell in any column", "two text cells", "duplicated pressure row", "text in the pressure column", "too few rows"])
            ls = list(good_lines)
            tok = rng.choice(["ERR", "--", "1.2.3", "#VALUE!", "?", "12abc"])
            where = {"token": tok}

            def put(r, c):
                cells = ls[r].split(",")
                cells[c] = tok
                ls[r] = ",".join(cells)
                where.setdefault("cells (row, column; 1-based, column 0 = pressure)", []).append([r, c])
            if kind == "text cell in a late column":
                put(rng.randint(1, nrow), rng.randint(max(2, ncol - ncol // 3), ncol))
            elif kind == "text cell in any column":
                put(rng.randint(1, nrow), rng.randint(1, ncol))
            elif kind == "two text cells":
                c1 = rng.randint(2, ncol)
                put(rng.randint(1, nrow), c1)
                put(rng.randint(1, nrow), rng.randint(1, c1))
            elif kind == "duplicated pressure row":
                r = rng.randint(1, nrow)
                ls.insert(r, ls[r])
                where["row"] = r
            elif kind == "text in the pressure column":
                put(rng.randint(1, nrow), 0)
            else:
                ls = ls[:rng.randint(2, 3)]
                where["rows_kept"] = len(ls) - 1
            return kind, where, ls, ncol

        def outcome(ep, karg, P, L, order):
            try:
                if ep == "psd_dft":
                    r = pgc.psd_dft(iso_of(P.copy(), L.copy()), kernel=karg, branch="ads", bspline_order=order)
                    nw_ = len(r["pore_widths"])
                else:
                    nw_ = len(pk.psd_dft_kernel_fit(P.copy(), L.copy(), karg, bspline_order=order)[0])
                return ["accepted", f"result on {nw_} pore widths"]
            except Exception as e:  # noqa
                return ["refused", type(e).__name__, str(e)[:200]]

        def refused_file_case(i):
            k = rng.choice(["user", "user2", "user3", "twin", rng.choice(NAMESAKES), "shipped"])
            good_path, widths0, plo, phi = KERNEL_FILES[k]
            nw = len(widths0)
            with open(good_path, encoding="utf8") as fp:
                good_lines = fp.read().splitlines()
            kind, where, ls, ncol = break_lines(good_lines)
            d1, d2 = os.path.join(bk_root, f"a{i}"), os.path.join(bk_root, f"b{i}")
            os.makedirs(d1)
            os.makedirs(d2)
            fname = f"broken-{i}-{rng.randrange(10**6)}.csv"
            p1 = os.path.join(d1, fname)
            p2 = os.path.join(d2, fname if rng.random() < 0.5 else "copy-of-" + fname)
            for p in (p1, p2):
                with open(p, "w", encoding="utf8") as fp:
                    fp.write("\n".join(ls) + "\n")
                bk_paths.append(p)
            P = np.array(sorted({logu(rng, max(plo, 1e-7) * 1.01, phi * 0.98) for _ in range(25 if k == "shipped" else 10)}))
            wts = sparse_weights(nw)
            wts[nw - 1 - rng.randrange(max(1, nw // 3))] = rng.uniform(0.05, 1.0)         # a width of a late column takes part
            L = combo(good_path, P, wts)
            order = rng.choice([0, 0, 2])
            ep = rng.choice(["psd_dft_kernel_fit", "psd_dft"])
            sig = {"kernel": "user", "entry_point": ep, "history": "kernel file that cannot be loaded, used again", "broken_file": kind}
            detail = {"content_derived_from": kname(k) + " kernel " + os.path.basename(good_path), "columns_of_the_file": ncol, "broken": where, "bspline_order": order,
                      "file_head": ls[:2], "pressure": P.tolist(), "loading": [float(v) for v in L]}
            ck.count(("refused-file", kind, ep, i), bucket=f"state after a refused call:{kind}:{ep}")
            o1 = outcome(ep, p1, P, L, order)
            detail["first_use"] = o1
            if o1[0] != "refused":
                ck.count(("refused-file-accepted", kind), nontrivial=False, bucket="state after a refused call: the file was accepted at first use (nothing to compare)")
                return
            loads = own_loads(p1)
            for name, kk, vv in module_entries(p1):
                if loads is None:
                    fail_case({**sig, "clause": "a kernel file that was refused stays registered in the module"},
                              {**detail, "container": name, "key": str(kk), "entries_of_the_registered_kernel": len(vv) if hasattr(vv, "__len__") else None})
                elif isinstance(vv, dict) and [str(c) for c in vv] != loads:
                    fail_case({**sig, "clause": "registered kernel does not have the pore widths of its file"}, {**detail, "container": name, "registered": len(vv), "file": len(loads)})
            o2 = outcome(ep if rng.random() < 0.7 else ("psd_dft" if ep != "psd_dft" else "psd_dft_kernel_fit"), p1, P, L, order)
            if o2 != o1:
                fail_case({**sig, "clause": "a kernel file that was refused is answered differently at the second use", "how": "accepted" if o2[0] == "accepted" else "another error"},
                          {**detail, "second_use": o2})
            o3 = outcome(ep, p2, P, L, order)
            if [s.replace(p2, "<path>") for s in o3] != [s.replace(p1, "<path>") for s in o1]:
                fail_case({**sig, "clause": "the same kernel file content at another path is answered differently after a refused call", "how": "accepted" if o3[0] == "accepted" else "another error"},
                          {**detail, "other_path_use": o3, "same_file_name": os.path.basename(p1) == os.path.basename(p2)})
            for p in (p1, p2):
                for name, kk, vv in module_entries(p):
                    if own_loads(p) is None:
                        fail_case({**sig, "clause": "a kernel file that was refused stays registered in the module"}, {**detail, "container": name, "key": str(kk), "after": "second use / other path"})
            # the intact file afterwards
            sig_g = {"kernel": kname(k), "bspline_order": order, "history": "intact kernel file after refused calls on a broken copy"}
            ck.count(("refused-file-then-good", k, order), bucket="state after a refused call: the intact file afterwards")
            certificate(good_path, P, L, order, wts, sig_g, {**detail, "kernel_file": os.path.basename(good_path), "weights": {str(widths0[j]): float(wts[j]) for j in range(nw) if wts[j] > 0}}, widths0)

        for i in range(ck.n(12, 48)):
            refused_file_case(i)

        # every registered kernel is the complete kernel of its file (whatever happened in this process: fits, refusals, other kernels)
        for k, (path, widths0, _, _) in KERNEL_FILES.items():
            for arg in [path] + [a for a in used_kernel_args if os.path.basename(a) == os.path.basename(path) and os.path.exists(a) and os.path.samefile(a, path)]:
                for name, obj in list(vars(pk).items()):
                    ent = obj.get(arg) if isinstance(obj, dict) and not name.startswith("__") else None
                    if isinstance(ent, dict):
                        ck.count(("registered-complete", k, name), nontrivial=False, bucket="registered kernels are complete at the end of the process")
                        try:
                            got = [float(c) for c in ent]
                        except Exception:  # noqa
                            got = None
                        if got is None or len(got) != len(widths0) or not np.allclose(got, widths0):
                            fail_case({"kernel": kname(k), "clause": "registered kernel does not have the pore widths of its file"},
                                      {"kernel_file": os.path.basename(path), "container": name, "registered": None if got is None else got[:8], "file": [float(v) for v in widths0[:8]]})

        # ------------------------------------------------------------------ entry point: limits, outside-range refusal
        for i in range(max(6, N // 2)):
            npts = rng.choice([30, 50])
            pressure = np.array(sorted({logu(rng, kp[0] * 1.01, kp[-1] * 0.99) for _ in range(npts)}))
            kernel = own_kernel(shipped)
            wts = np.zeros(len(widths_shipped))
            for j in rng.sample(range(len(widths_shipped)), 3):
                wts[j] = rng.uniform(0.1, 1)
            loading = np.asarray([kernel[size](pressure) for size in kernel]).T @ wts

            def iso(pp, ll):
                return pg.PointIsotherm(pressure=pp, loading=ll, material="pgv-synth", adsorbate="N2", temperature=77.355, pressure_mode="relative", pressure_unit=None,
                                        loading_basis="molar", loading_unit="mmol", material_basis="mass", material_unit="g", temperature_unit="K")
            a, b = sorted(rng.sample(range(2, npts - 2), 2))
            if b - a < 5:
                continue
            if b + 1 >= len(pressure):
                continue
            # limits half-way (geometrically) between neighbouring points: the expected window does not depend on how close two random pressures are
            lim = (math.sqrt(float(pressure[a - 1]) * float(pressure[a])), math.sqrt(float(pressure[b]) * float(pressure[b + 1])))
            order = rng.choice([0, 2])
            ck.count(("limits", i), bucket="entry point: limits")
            try:
                r1 = pgc.psd_dft(iso(pressure, loading), kernel="DFT-N2-77K-carbon-slit", branch="ads", p_limits=lim, bspline_order=order)
                l2 = loading.copy()
                l2[:a] *= rng.uniform(0.2, 0.8)
                l2[b + 1:] = l2[b] + (l2[b + 1:] - l2[b]) * rng.uniform(1.5, 3)
                r2 = pgc.psd_dft(iso(pressure, l2), kernel="DFT-N2-77K-carbon-slit", branch="ads", p_limits=lim, bspline_order=order)
            except CalculationError:
                continue
            except Exception as e:  # noqa
                fail_case({"clause": "psd_dft raises a non-pyGAPS error", "error": type(e).__name__}, {"limits": lim, "error": repr(e)[:300]})
                continue
            if tuple(int(v) for v in r1["limits"]) != (a, b):
                fail_case({"clause": "points used are not the points inside the pressure limits"}, {"limits": lim, "used": [int(v) for v in r1["limits"]], "expected": [a, b]})
            same = all(np.array_equal(np.asarray(r1[k], dtype=float), np.asarray(r2[k], dtype=float)) for k in ("pore_widths", "pore_distribution", "pore_volume_cumulative", "kernel_loading"))
            if not same:
                fail_case({"clause": "points outside the requested pressure limits influence the result"}, {"limits": lim, "used": [a, b]})
            lines.append(f"win da L {q(lim[0])} {q(lim[1])} {qlist(pressure)} []")
            plan.append(("win", (a, b)))
        # points outside the kernel's pressure range that the user excludes with p_limits have no influence (and do not cause a refusal)
        for i in range(3):
            inside = np.array(sorted({logu(rng, kp[0] * 1.01, kp[-1] * 0.98) for _ in range(30)}))
            extra = np.array([min(0.9999, kp[-1] * 1.001), min(0.99995, kp[-1] * 1.002)])
            kernel = own_kernel(shipped)
            wts = np.zeros(len(widths_shipped))
            for j in rng.sample(range(len(widths_shipped)), 3):
                wts[j] = rng.uniform(0.1, 1)
            l_in = np.asarray([kernel[size](inside) for size in kernel]).T @ wts
            lim = (float(inside[2]) * 0.999, float(inside[-3]) * 1.001)
            ck.count(("limits-outside", i), bucket="entry point: limits exclude points outside the kernel range")

            def iso2(pp, ll):
                return pg.PointIsotherm(pressure=pp, loading=ll, material="pgv-synth", adsorbate="N2", temperature=77.355, pressure_mode="relative", pressure_unit=None,
                                        loading_basis="molar", loading_unit="mmol", material_basis="mass", material_unit="g", temperature_unit="K")
            try:
                r_in = pgc.psd_dft(iso2(inside, l_in), kernel="DFT-N2-77K-carbon-slit", branch="ads", p_limits=lim, bspline_order=0)
            except CalculationError:
                continue
            try:
                r_ex = pgc.psd_dft(iso2(np.concatenate([inside, extra]), np.concatenate([l_in, [l_in[-1] * 1.1, l_in[-1] * 1.2]])), kernel="DFT-N2-77K-carbon-slit", branch="ads", p_limits=lim, bspline_order=0)
                if not all(np.array_equal(np.asarray(r_in[k], dtype=float), np.asarray(r_ex[k], dtype=float)) for k in ("pore_distribution", "pore_volume_cumulative", "kernel_loading")):
                    fail_case({"clause": "points outside the requested pressure limits influence the result"}, {"limits": lim, "extra_points": extra.tolist()})
            except Exception as e:  # noqa
                fail_case({"clause": "points outside the requested pressure limits influence the result", "how": "refused: " + type(e).__name__}, {"limits": lim, "extra_points": extra.tolist(), "error": str(e)[:200]})
        # (round 6, C18-m11: an interpolator that extrapolates + a range test with an upper bound only: -1e-3 still failed by accident,
        # a near-vacuum offset of -1e-7 ... -1e-5 was fitted on extrapolated kernel values)
        for bad in ([kp[-1] * 1.5], [-1e-3], [kp[-1] * 1.0001], [-1e-5], [-1e-7], [-10 ** rng.uniform(-9, -2)], [-1e-7, kp[-1] * 1.01]):
            pressure = np.array(sorted([float(kp[3]), float(kp[10]), float(kp[20])] + bad))
            ck.count(("outside", bad[0]), bucket="outside kernel range")
            try:
                pk.psd_dft_kernel_fit(pressure, np.linspace(1, 2, len(pressure)), shipped, bspline_order=0)
                fail_case({"clause": "pressure outside the kernel range accepted"}, {"pressure": pressure.tolist(), "kernel_range": [float(kp[0]), float(kp[-1])]})
            except CalculationError:
                pass
            except Exception as e:  # noqa
                fail_case({"clause": "pressure outside the kernel range gives a non-pyGAPS error", "error": type(e).__name__}, {"pressure": pressure.tolist(), "error": repr(e)[:300]})
        for path_, top in ((user_path, up[-1]), (user_path2, up2[-1])):
            pressure = np.array([top * 0.1, top * 0.5, top * 0.9, top * 1.2]) if rng.random() < 0.5 else np.array([-top * 10 ** rng.uniform(-7, -3), top * 0.3, top * 0.6, top * 0.9])
            ck.count(("outside-user", path_), bucket="outside kernel range (user kernels with the same file name)")
            try:
                pk.psd_dft_kernel_fit(pressure, np.linspace(1, 2, 4), path_, bspline_order=0)
                fail_case({"clause": "pressure outside the kernel range accepted", "kernel": "user"}, {"pressure": pressure.tolist(), "kernel_top": float(top)})
            except CalculationError:
                pass
            except Exception as e:  # noqa
                fail_case({"clause": "pressure outside the kernel range gives a non-pyGAPS error", "error": type(e).__name__}, {"pressure": pressure.tolist(), "error": repr(e)[:300]})
    finally:
        pk._LOADED.pop(user_path, None)
        pk._LOADED.pop(user_path2, None)
        pk._LOADED.pop(os.path.basename(user_path), None)
        pk._LOADED.pop(user_path3, None)
        pk._LOADED.pop(twin_path, None)
        for arg in list(used_kernel_args) + [KERNEL_FILES[k][0] for k in NAMESAKES]:
            pk._LOADED.pop(arg, None)
        shutil.rmtree(ns_root, ignore_errors=True)
        for arg in locals().get('bk_paths', []):
            pk._LOADED.pop(arg, None)
        if 'bk_root' in locals():
            shutil.rmtree(bk_root, ignore_errors=True)
        for f in os.listdir(tmpdir4):
            os.remove(os.path.join(tmpdir4, f))
        os.rmdir(tmpdir4)
        for f in os.listdir(tmpdir3):
            os.remove(os.path.join(tmpdir3, f))
        os.rmdir(tmpdir3)
        for f in os.listdir(tmpdir2):
            os.remove(os.path.join(tmpdir2, f))
        os.rmdir(tmpdir2)
        for f in os.listdir(tmpdir):
            os.remove(os.path.join(tmpdir, f))
        os.rmdir(tmpdir)

    # ------------------------------------------------------------------ correspondence
    n_dis = 0
    kl_lines = [(l, p) for l, p in zip(lines, plan) if p[0] != "win"] + [(l, ("bs", d)) for l, d in zip(bs_lines, bs_plan)]
    win_lines = [(l, p) for l, p in zip(lines, plan) if p[0] == "win"]
    for driver, items in (("Kernel", kl_lines), ("Char", win_lines)):
        if not items:
            continue
        try:
            replies = ck.drive(driver, [l for l, _ in items])
        except Exception as e:
            ck.broken.append({"step": f"driver {driver}", "what": str(e)[:600]})
            continue
        for (line, (what, data)), rep in zip(items, replies):
            t = rep.split()
            ck.count(("corr", what), nontrivial=False, bucket="correspondence:" + what)
            if t[0] != "ok":
                ok = False
            elif what == "kl":
                ok = all(abs(float(a) - float(b)) <= 1e-9 * max(1.0, abs(float(b))) for a, b in zip(parse_qlist(t[1]), data))
            elif what == "bs":
                # Model/Kernel.lean bsplineCurve at ℚ (the driver also checks the hypotheses of bsplineAt_mem_Icc on every query) against the library's smoothed arrays
                mw, md = [float(v) for v in parse_qlist(t[1])], [float(v) for v in parse_qlist(t[2])]
                sw, sd = max(abs(v) for v in mw), max(max(abs(v) for v in md), 1e-300)
                ok = len(mw) == len(data[0]) and all(abs(a - float(b)) <= 1e-9 * sw for a, b in zip(mw, data[0])) and all(abs(a - float(b)) <= 1e-9 * sd for a, b in zip(md, data[1]))
            elif what == "dist":
                ok = all(abs(float(a) - float(b)) <= 1e-9 * max(1.0, abs(float(b))) for a, b in zip(parse_qlist(t[1]), data[0])) and \
                    all(abs(float(a) - float(b)) <= 1e-9 * max(1.0, abs(float(b))) for a, b in zip(parse_qlist(t[2]), data[1]))
            else:
                ok = (int(t[1]), int(t[2])) == data
            if not ok:
                n_dis += 1
                if n_dis <= 3:
                    ck.broken.append({"step": f"correspondence Model/Kernel.lean ({what})", "what": {"request": line[:300], "model": rep[:300], "implementation": str(data)[:300]}})
    ck.cov["correspondence_disagreements"] = n_dis
    ck.cov["twin_kernel_files_same_size"] = bool(twin_same_size)
    ck.cov["worst"] = {k: float(f"{v:.3g}") for k, v in sorted(worst.items())}
    ck.cov["rule"] = ("non-negative sparse (1-4 widths) and dense weight vectors over the 77 kernel pore widths and over user kernel files with 6, 6 and 3 widths, 8-60 log-uniform pressures inside the kernel range, spline orders 0-3 "
                      "(every smoothed fit against the unsmoothed fit of the same data and de Boor's recursion), the sparse combinations again at other magnitudes (weights x 1e-7..1e-4, x 3..2000, "
                      "and weights balanced against the size of the kernel columns: every width contributes 0.5-3000 mmol/g), arbitrary increasing data, pressure limits anywhere (both, one, none; adsorption and desorption branch) with perturbed data outside them, "
                      "pressures outside the kernel range; histories of fits in one process on related grids (same length and end points, one point moved, subsets, shifted, reversed, arrays changed in place, other isotherm / order / kernel on "
                      "the same grid, other limits or isotherm through the entry point), user kernel files named like the shipped kernel (file name, bare name, other extension / case / prefix / suffix / directory; ranges below and above the shipped one; "
                      "absolute / relative / unnormalised path) through psd_dft and psd_dft_kernel_fit with agreement of the two, refusal outside and acceptance inside the file's own range, every answer certified with an independently loaded and interpolated kernel, repeated calls compared; kernel files that cannot be loaded (text cells, duplicated pressure row, text pressure, too few rows): "
                      "nothing stays registered after the refusal, second use and the same content at another path are refused alike, the intact file is fitted afterwards, registered kernels are complete at the end")
    ck.assumptions += ["scipy SLSQP (ftol 1e-4, absolute) is numerical: fit error of exact combinations checked to max(0.15, 2e-2 |loading|_2) in L2 at every magnitude of the weights "
                       "(the absolute floor is the property's 'optimiser tolerance': isotherms with a sum of squares near ftol may be answered by the start vector 0)",
                       "scipy interp1d(kind='cubic') of the kernel file is residue; scipy splev is compared with the de Boor model on every smoothed fit"]
