"""C18 — kernel (DFT) fitting is non-negative and reproduces the isotherm.

Lean: Props/C18.lean over Model/Kernel.lean (kernel-weighted sum, objective, contribution -> distribution -> cumulative volume; run at ℚ
against the real function): linearity, non-negativity, exact combinations have objective 0 and every zero-objective vector reproduces the
isotherm, cumulative = running integral and non-decreasing, convex-combination smoothing keeps non-negativity.  SLSQP, the cubic kernel
interpolation and scipy's B-spline are numerical: every fit is decided by certificate on the returned arrays.
"""
import math
import os
import tempfile

from pgv.charlib import optq, parse_q, parse_qlist, q, qlist, quiet_logging
from pgv.core import import_pygaps
from pgv.models import logu, relerr


def run(ck):
    pg = import_pygaps()
    import numpy as np
    import pandas as pd
    import pygaps.characterisation as pgc
    import pygaps.characterisation.psd_kernel as pk
    from pygaps.data import KERNELS
    from pygaps.utilities.exceptions import CalculationError, ParameterError
    quiet_logging()
    np.seterr(all="ignore")
    rng = ck.rng
    thorough = ck.tier == "thorough"
    N = ck.n(12, 60)
    worst = {}
    lines, plan = [], []

    def note(k, v):
        worst[k] = max(worst.get(k, 0.0), v)
        return v

    shipped = str(KERNELS["DFT-N2-77K-carbon-slit"])
    raw = pd.read_csv(shipped, index_col=0)
    kp = raw.index.values.astype(float)
    widths_shipped = np.asarray(raw.columns, dtype=float)

    # a small user kernel file: 6 pore widths x 14 pressures, Langmuir-like local isotherms with a condensation step
    tmpdir = tempfile.mkdtemp(prefix="pgv-kernel-")
    user_path = os.path.join(tmpdir, "user-kernel.csv")
    uw = [0.5, 0.8, 1.2, 2.0, 3.5, 6.0]
    up = np.geomspace(1e-6, 0.9, 14)
    tab = {str(w): [3.0 * (p * 10 ** (6 - w)) / (1 + p * 10 ** (6 - w)) + w * 2.0 / (1 + math.exp(-(math.log10(p) + 6 - w) * 3)) for p in up] for w in uw}
    pd.DataFrame(tab, index=up).to_csv(user_path)

    # a second user kernel with the SAME file name in another directory and other pore widths / pressure range
    tmpdir2 = tempfile.mkdtemp(prefix="pgv-kernel2-")
    user_path2 = os.path.join(tmpdir2, "user-kernel.csv")
    uw2 = [0.6, 1.0, 2.6, 9.5, 12.0, 16.0]        # crosses 10 nm: the column labels do not sort like numbers
    up2 = np.geomspace(1e-5, 0.6, 12)
    tab2 = {str(w): [2.0 * (p * 10 ** (5 - w)) / (1 + p * 10 ** (5 - w)) + w * 1.5 / (1 + math.exp(-(math.log10(p) + 5 - w) * 3)) for p in up2] for w in uw2}
    pd.DataFrame(tab2, index=up2).to_csv(user_path2)

    from scipy import interpolate as _ip
    _own = {}

    def own_kernel(path):
        """the kernel of THIS file, built here (same construction as the library: a zero row in front, cubic interpolation per column)"""
        if path not in _own:
            rk = pd.read_csv(path, index_col=0)
            rk = pd.concat([pd.DataFrame([[0 for _ in rk.columns]], index=[0], columns=rk.columns), rk])
            _own[path] = {c: _ip.interp1d(rk[c].index, rk[c].values, kind="cubic") for c in rk}
        return _own[path]

    def certificate(path, pressure, loading, order, weights, sig, detail, widths0):
        try:
            w, dist, cum, kl = pk.psd_dft_kernel_fit(np.array(pressure), np.array(loading), path, bspline_order=order)
        except CalculationError as e:
            ck.count(("fit-refused", sig["kernel"]), nontrivial=False, bucket="fit refused (optimiser reports failure)")
            return None
        except Exception as e:  # noqa
            ck.fail_case({**sig, "clause": "fit raises a non-pyGAPS error", "error": type(e).__name__}, {**detail, "error": repr(e)[:300]})
            return None
        w, dist, cum, kl = (np.asarray(a, dtype=float) for a in (w, dist, cum, kl))
        scale = float(np.max(np.abs(dist))) or 1.0
        if np.min(dist) < -1e-9 * scale:
            ck.fail_case({**sig, "clause": "pore size distribution has negative entries"}, {**detail, "min": float(np.min(dist)), "max": scale})
        dw = np.ediff1d(w, to_begin=w[0])
        e = float(np.max(np.abs(cum - np.cumsum(dist * dw))) / max(float(np.max(np.abs(cum))), 1e-300))
        note("cumulative = running integral", e)
        if not (e <= 1e-12):
            ck.fail_case({**sig, "clause": "cumulative pore volume is not the running integral of the reported distribution"}, {**detail, "worst": e})
        if np.any(np.diff(cum) < -1e-9 * max(float(np.max(np.abs(cum))), 1e-300)):
            ck.fail_case({**sig, "clause": "cumulative pore volume decreases"}, {**detail, "cumulative": cum[:8].tolist()})
        if len(kl) != len(pressure):
            ck.fail_case({**sig, "clause": "fitted isotherm has another length than the data"}, detail)
            return None
        kernel = own_kernel(path)
        kpts = np.asarray([kernel[size](np.array(pressure)) for size in kernel])
        if order == 0:
            if len(w) != len(widths0) or not np.allclose(w, widths0):
                ck.fail_case({**sig, "clause": "reported pore widths are not those of the kernel file"}, {**detail, "got": w[:6].tolist(), "expected": list(widths0[:6])})
                return None
            # reported distribution x width increments are the contributions: their kernel-weighted sum is the reported fitted isotherm
            x = dist * np.ediff1d(widths0, to_begin=widths0[0])
            e = float(np.max(np.abs(kpts.T @ x - kl)) / max(float(np.max(np.abs(kl))), 1e-300))
            note("kernel-weighted sum = fitted isotherm", e)
            if not (e <= 1e-10):
                ck.fail_case({**sig, "clause": "kernel-weighted sum of the distribution is not the reported fitted isotherm"}, {**detail, "worst": e})
            if len(widths0) <= 8 and len(pressure) <= 14:
                lines.append("kl " + " ".join(qlist(r) for r in kpts) + " | " + qlist(x))
                plan.append(("kl", kl))
                lines.append(f"dist {qlist(x)} {qlist(widths0)}")
                plan.append(("dist", (dist, cum)))
        if weights is not None:
            e = float(np.linalg.norm(kl - np.array(loading)) / max(np.linalg.norm(loading), 1e-300))
            note(f"exact combination: fit error (order {order})", e)
            if not (e <= 2e-2):
                ck.fail_case({**sig, "clause": "fitted isotherm does not match an exact non-negative combination of kernel isotherms", "dense_combination": bool(np.count_nonzero(weights) > 20)},
                             {**detail, "relative_l2_error": e})
        return w, dist, cum, kl

    try:
        for i in range(N):
            user = i % 3 == 2
            if user and i % 2 == 1:
                path, widths0, plo, phi = user_path2, np.array(uw2), up2[0], up2[-1]
            else:
                path, widths0, plo, phi = (user_path, np.array(uw), up[0], up[-1]) if user else (shipped, widths_shipped, kp[0], kp[-1])
            nw = len(widths0)
            kernel = own_kernel(path)
            sparse = rng.random() < 0.6
            wts = np.zeros(nw)
            for j in (rng.sample(range(nw), rng.randint(1, 4)) if sparse else range(nw)):
                wts[j] = rng.uniform(0.05, 1.0) * (1.0 if sparse else rng.random() < 0.7)
            npts = rng.choice([12, 14]) if user else rng.choice([25, 40, 60])
            pressure = sorted({logu(rng, max(plo, 1e-7) * 1.01, phi * 0.99) for _ in range(npts)})
            kpts = np.asarray([kernel[size](np.array(pressure)) for size in kernel])
            loading = kpts.T @ wts
            order = rng.choice([0, 0, 1, 2, 3])
            sig = {"kernel": "user" if user else "shipped", "bspline_order": order}
            detail = {"weights": {str(widths0[j]): float(wts[j]) for j in range(nw) if wts[j] > 0}, "n_points": len(pressure), "pressure_head": pressure[:4]}
            ck.count(("fit", sig["kernel"], order, sparse, i), bucket=f"exact combination:{sig['kernel']}:order {order}:{'sparse' if sparse else 'dense'}",
                     sample={**sig, **detail} if i % 6 == 0 else None)
            certificate(path, pressure, loading.tolist(), order, wts, sig, detail, widths0)
            # arbitrary (non-combination) increasing data: non-negativity, cumulative, kernel sum
            if i % 2 == 0:
                load2 = np.cumsum([rng.uniform(0, 1) for _ in pressure])
                ck.count(("fit-arb", sig["kernel"], order, i), bucket=f"arbitrary data:{sig['kernel']}:order {order}")
                certificate(path, pressure, load2.tolist(), order, None, sig, {"n_points": len(pressure), "loading_head": load2[:4].tolist()}, widths0)

        # ------------------------------------------------------------------ entry point: limits, outside-range refusal
        for i in range(max(6, N // 2)):
            npts = rng.choice([30, 50])
            pressure = np.array(sorted({logu(rng, kp[0] * 1.01, kp[-1] * 0.99) for _ in range(npts)}))
            kernel = own_kernel(shipped)
            wts = np.zeros(len(widths_shipped))
            for j in rng.sample(range(len(widths_shipped)), 3):
                wts[j] = rng.uniform(0.1, 1)
            loading = np.asarray([kernel[size](pressure) for size in kernel]).T @ wts

            def iso(pp, ll):
                return pg.PointIsotherm(pressure=pp, loading=ll, material="pgv-synth", adsorbate="N2", temperature=77.355, pressure_mode="relative", pressure_unit=None,
                                        loading_basis="molar", loading_unit="mmol", material_basis="mass", material_unit="g", temperature_unit="K")
            a, b = sorted(rng.sample(range(2, npts - 2), 2))
            if b - a < 5:
                continue
            lim = (float(pressure[a]) * 0.999, float(pressure[b]) * 1.001)
            order = rng.choice([0, 2])
            ck.count(("limits", i), bucket="entry point: limits")
            try:
                r1 = pgc.psd_dft(iso(pressure, loading), kernel="DFT-N2-77K-carbon-slit", branch="ads", p_limits=lim, bspline_order=order)
                l2 = loading.copy()
                l2[:a] *= rng.uniform(0.2, 0.8)
                l2[b + 1:] = l2[b] + (l2[b + 1:] - l2[b]) * rng.uniform(1.5, 3)
                r2 = pgc.psd_dft(iso(pressure, l2), kernel="DFT-N2-77K-carbon-slit", branch="ads", p_limits=lim, bspline_order=order)
            except CalculationError:
                continue
            except Exception as e:  # noqa
                ck.fail_case({"clause": "psd_dft raises a non-pyGAPS error", "error": type(e).__name__}, {"limits": lim, "error": repr(e)[:300]})
                continue
            if tuple(int(v) for v in r1["limits"]) != (a, b):
                ck.fail_case({"clause": "points used are not the points inside the pressure limits"}, {"limits": lim, "used": [int(v) for v in r1["limits"]], "expected": [a, b]})
            same = all(np.array_equal(np.asarray(r1[k], dtype=float), np.asarray(r2[k], dtype=float)) for k in ("pore_widths", "pore_distribution", "pore_volume_cumulative", "kernel_loading"))
            if not same:
                ck.fail_case({"clause": "points outside the requested pressure limits influence the result"}, {"limits": lim, "used": [a, b]})
            lines.append(f"win da L {q(lim[0])} {q(lim[1])} {qlist(pressure)} []")
            plan.append(("win", (a, b)))
        # points outside the kernel's pressure range that the user excludes with p_limits have no influence (and do not cause a refusal)
        for i in range(3):
            inside = np.array(sorted({logu(rng, kp[0] * 1.01, kp[-1] * 0.98) for _ in range(30)}))
            extra = np.array([min(0.9999, kp[-1] * 1.001), min(0.99995, kp[-1] * 1.002)])
            kernel = own_kernel(shipped)
            wts = np.zeros(len(widths_shipped))
            for j in rng.sample(range(len(widths_shipped)), 3):
                wts[j] = rng.uniform(0.1, 1)
            l_in = np.asarray([kernel[size](inside) for size in kernel]).T @ wts
            lim = (float(inside[2]) * 0.999, float(inside[-3]) * 1.001)
            ck.count(("limits-outside", i), bucket="entry point: limits exclude points outside the kernel range")

            def iso2(pp, ll):
                return pg.PointIsotherm(pressure=pp, loading=ll, material="pgv-synth", adsorbate="N2", temperature=77.355, pressure_mode="relative", pressure_unit=None,
                                        loading_basis="molar", loading_unit="mmol", material_basis="mass", material_unit="g", temperature_unit="K")
            try:
                r_in = pgc.psd_dft(iso2(inside, l_in), kernel="DFT-N2-77K-carbon-slit", branch="ads", p_limits=lim, bspline_order=0)
            except CalculationError:
                continue
            try:
                r_ex = pgc.psd_dft(iso2(np.concatenate([inside, extra]), np.concatenate([l_in, [l_in[-1] * 1.1, l_in[-1] * 1.2]])), kernel="DFT-N2-77K-carbon-slit", branch="ads", p_limits=lim, bspline_order=0)
                if not all(np.array_equal(np.asarray(r_in[k], dtype=float), np.asarray(r_ex[k], dtype=float)) for k in ("pore_distribution", "pore_volume_cumulative", "kernel_loading")):
                    ck.fail_case({"clause": "points outside the requested pressure limits influence the result"}, {"limits": lim, "extra_points": extra.tolist()})
            except Exception as e:  # noqa
                ck.fail_case({"clause": "points outside the requested pressure limits influence the result", "how": "refused: " + type(e).__name__}, {"limits": lim, "extra_points": extra.tolist(), "error": str(e)[:200]})
        for bad in ([kp[-1] * 1.5], [-1e-3], [kp[-1] * 1.0001]):
            pressure = np.array(sorted([float(kp[3]), float(kp[10]), float(kp[20])] + bad))
            ck.count(("outside", bad[0]), bucket="outside kernel range")
            try:
                pk.psd_dft_kernel_fit(pressure, np.linspace(1, 2, len(pressure)), shipped, bspline_order=0)
                ck.fail_case({"clause": "pressure outside the kernel range accepted"}, {"pressure": pressure.tolist(), "kernel_range": [float(kp[0]), float(kp[-1])]})
            except CalculationError:
                pass
            except Exception as e:  # noqa
                ck.fail_case({"clause": "pressure outside the kernel range gives a non-pyGAPS error", "error": type(e).__name__}, {"pressure": pressure.tolist(), "error": repr(e)[:300]})
        for path_, top in ((user_path, up[-1]), (user_path2, up2[-1])):
            pressure = np.array([top * 0.1, top * 0.5, top * 0.9, top * 1.2])
            ck.count(("outside-user", path_), bucket="outside kernel range (user kernels with the same file name)")
            try:
                pk.psd_dft_kernel_fit(pressure, np.linspace(1, 2, 4), path_, bspline_order=0)
                ck.fail_case({"clause": "pressure outside the kernel range accepted", "kernel": "user"}, {"pressure": pressure.tolist(), "kernel_top": float(top)})
            except CalculationError:
                pass
            except Exception as e:  # noqa
                ck.fail_case({"clause": "pressure outside the kernel range gives a non-pyGAPS error", "error": type(e).__name__}, {"pressure": pressure.tolist(), "error": repr(e)[:300]})
    finally:
        pk._LOADED.pop(user_path, None)
        pk._LOADED.pop(user_path2, None)
        pk._LOADED.pop(os.path.basename(user_path), None)
        for f in os.listdir(tmpdir2):
            os.remove(os.path.join(tmpdir2, f))
        os.rmdir(tmpdir2)
        for f in os.listdir(tmpdir):
            os.remove(os.path.join(tmpdir, f))
        os.rmdir(tmpdir)

    # ------------------------------------------------------------------ correspondence
    n_dis = 0
    kl_lines = [(l, p) for l, p in zip(lines, plan) if p[0] != "win"]
    win_lines = [(l, p) for l, p in zip(lines, plan) if p[0] == "win"]
    for driver, items in (("Kernel", kl_lines), ("Char", win_lines)):
        if not items:
            continue
        try:
            replies = ck.drive(driver, [l for l, _ in items])
        except Exception as e:
            ck.broken.append({"step": f"driver {driver}", "what": str(e)[:600]})
            continue
        for (line, (what, data)), rep in zip(items, replies):
            t = rep.split()
            ck.count(("corr", what), nontrivial=False, bucket="correspondence:" + what)
            if t[0] != "ok":
                ok = False
            elif what == "kl":
                ok = all(abs(float(a) - float(b)) <= 1e-9 * max(1.0, abs(float(b))) for a, b in zip(parse_qlist(t[1]), data))
            elif what == "dist":
                ok = all(abs(float(a) - float(b)) <= 1e-9 * max(1.0, abs(float(b))) for a, b in zip(parse_qlist(t[1]), data[0])) and \
                    all(abs(float(a) - float(b)) <= 1e-9 * max(1.0, abs(float(b))) for a, b in zip(parse_qlist(t[2]), data[1]))
            else:
                ok = (int(t[1]), int(t[2])) == data
            if not ok:
                n_dis += 1
                if n_dis <= 3:
                    ck.broken.append({"step": f"correspondence Model/Kernel.lean ({what})", "what": {"request": line[:300], "model": rep[:300], "implementation": str(data)[:300]}})
    ck.cov["correspondence_disagreements"] = n_dis
    ck.cov["worst"] = {k: float(f"{v:.3g}") for k, v in sorted(worst.items())}
    ck.cov["rule"] = ("non-negative sparse (1-4 widths) and dense weight vectors over the 77 kernel pore widths and over a 6-width user kernel file, 12-60 log-uniform pressures inside the kernel range, spline orders 0-3, "
                      "arbitrary increasing data, pressure limits anywhere with perturbed data outside them, pressures outside the kernel range")
    ck.assumptions += ["scipy SLSQP (ftol 1e-4) is numerical: fit error of exact combinations checked to 2e-2 (relative L2)", "scipy interp1d(kind='cubic') of the kernel file and scipy splev are residue"]
