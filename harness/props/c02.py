"""C02 — permanent conversions over any history.

Lean: Props/C02.lean (single-step specifications, refusals leave the state unchanged, invariant over histories).
Lean, continued: Props/C02/Combined.lean (convert(...) = its single calls in the documented order stopped at the first
refusal, `convertAll_eq_singles`, `convertAll_refused_eq_completed_steps`, `convertAll_ok_eq_sequence`, `convertAll_no_early_refusal`;
queries read the stored data after any history, `query_reads_stored_data`) over Model/IsoSeq.lean.
Tie: correspondence of Model/IsoState.lean (ℚ) with PointIsotherm.convert* / convert_temperature on real
objects: single steps from sampled (thorough: all) label states with every argument class, and seeded
histories; after every call labels, both columns, temperature and the outcome class are compared.
Failing-input search: the invariant itself, evaluated on the real object with the independent SI tables
of c01.py: data = original x scale(original)/scale(current), labels accepted by the constructor, refused
call changes nothing, untouched columns/branch/metadata/order, caches reset.
Combined call (independent of the Lean model; the specification proved for the model in Props/C02/Combined.lean,
`convertAll_eq_singles`): for EVERY `convert(...)` a fresh copy of the isotherm gets the single-quantity calls in the
documented order pressure -> material -> loading; the first that refuses stops the sequence; the isotherm after the
combined call (accepted or refused) must equal — labels, every cell, temperature, branch, extra columns — the copy on
which exactly the earlier steps were applied singly, and it is refused iff one of the single steps is.  Family (c)
generates combined calls with a refusing argument in each of the three positions (unknown / foreign-family basis token,
omitted or empty unit on a changed basis, unit of another table, unknown unit, target needing a property the adsorbate
or the material does not have) next to valid changes, repeats and absent arguments in the other positions.
Queries (Props/C02/Combined.lean `query_reads_stored_data`): before every call both interpolator slots are filled
(`loading_at`, `pressure_at` on a seeded branch), after it `loading_at` / `pressure_at` at a measured point must give
the stored datum back and, with `spreading_pressure_at`, agree with a freshly constructed copy of the stored state.
"""
import itertools
import re
from fractions import Fraction as Fr

import c01
from pgv.core import close, err_class, frac, import_pygaps, qstr, tok

ERRMAP = {"param": "param", "calc": "calc", "key": "other:KeyError", "type": "other:TypeError"}


class World:
    """One adsorbate/material/temperature with exact constants, shared by model and implementation."""

    def __init__(self, pg, name, ads_name, mat_name, temp):
        self.pg, self.name = pg, name
        self.ads = pg.Adsorbate.find(ads_name)
        self.mat = pg.Material.find(mat_name)
        self.temp = temp
        self.props = c01.Props(name, self.ads, self.mat, temp, pg)

    def ctx_line(self):
        return " ".join(["ctx", tok(self.props.psat)] + self.props.env_tokens() + ["T" if self.temp else "F"])


def labels_of(iso):
    return [iso.pressure_mode, iso.pressure_unit, iso.loading_basis, iso.loading_unit, iso.material_basis, iso.material_unit,
            iso.temperature_unit]


def snapshot(iso):
    d = iso.data_raw
    return {"labels": labels_of(iso), "p": [float(x) for x in d[iso.pressure_key]], "l": [float(x) for x in d[iso.loading_key]],
            "t": float(iso._temperature), "branch": list(d["branch"]), "extra": {c: list(d[c]) for c in iso.other_keys},
            "index": list(d.index), "props": dict(iso.properties), "mat": str(iso.material), "ads": str(iso.adsorbate)}


def make_iso(pg, w, lab, ps, ls, tval, branch=None):
    import pandas as pd
    n = len(ps)
    data = pd.DataFrame({"pressure": ps, "loading": ls, "enthalpy": [5.0 + i for i in range(n)], "tag": [f"r{i}" for i in range(n)]})
    br = branch if branch is not None else [0] * (n - n // 3) + [1] * (n // 3)
    return pg.PointIsotherm(isotherm_data=data, pressure_key="pressure", loading_key="loading",
                            branch=br, material=w.mat.name, adsorbate=w.ads.name, temperature=tval,
                            pressure_mode=lab[0], pressure_unit=lab[1], loading_basis=lab[2], loading_unit=lab[3],
                            material_basis=lab[4], material_unit=lab[5], temperature_unit=lab[6], note="kept", n=3)


def canon(w, lab, p, l):
    """SI content of one row under the labels (independent oracle): (Pa, mol adsorbate per gram material)."""
    P = w.props
    cp = frac(p) * P.scale_p(lab[0], lab[1])
    cl = frac(l) * P.scale_l(lab[2], lab[3], lab[4], lab[5]) / P.grams(lab[4], lab[5])
    return cp, cl


def tempK(lab, t):
    return frac(t) + (Fr(27315, 100) if lab[6] != "K" else 0)


def constructor_accepts(pg, iso):
    """Would the constructor accept the isotherm's own description (`to_dict()`)?"""
    from pygaps.core.baseisotherm import BaseIsotherm
    d = iso.to_dict()
    try:
        BaseIsotherm(**d)
        return True
    except Exception:  # noqa  refused is refused, whatever the class: the constructor of the pinned tree refuses an invalid material unit under a
        return False    # gas / liquid-volume loading basis with KeyError (its message indexes the wrong table; E17 observation 2, no property states the class)


def rebuild_problem(iso):
    """None when the constructor accepts the isotherm's own description (`to_dict()`) and the rebuilt object carries the same labels and the same
    temperature; otherwise what is wrong.  Evaluated after EVERY call (accepted or refused, temperature conversions included)."""
    from pygaps.core.baseisotherm import BaseIsotherm
    try:
        b = BaseIsotherm(**iso.to_dict())
    except Exception as e:  # noqa  refused is refused, whatever the class (see constructor_accepts)
        return "the constructor refuses to_dict(): " + err_class(e)
    if labels_of(b) != labels_of(iso):
        return "rebuilt from to_dict() carries other labels: " + str(labels_of(b))
    try:
        tb, ti = float(b.temperature), float(iso.temperature)
    except Exception as e:  # noqa
        return "temperature (kelvin) cannot be read: " + err_class(e)
    if not near(tb, ti, rel=1e-12):
        return f"rebuilt from to_dict() has temperature {tb!r} K, the isotherm {ti!r} K"
    return None


def clone(pg, iso):
    """A freshly constructed isotherm with the same stored state (never deepcopy)."""
    return pg.PointIsotherm(isotherm_data=iso.data_raw.copy(), pressure_key=iso.pressure_key, loading_key=iso.loading_key, **iso.to_dict())


def sub_steps(a):
    """The single-quantity calls `convert(...)` documents, in its documented order; a step is issued iff one of its
    two arguments is given (mirrors `subSteps` of Props/C02/Combined.lean)."""
    pm, pu, lb, lu, mb, mu = a
    return ([("P", (pm, pu))] if (pm or pu) else []) + ([("M", (mb, mu))] if (mb or mu) else []) + ([("L", (lb, lu))] if (lb or lu) else [])


def expected_combined(ref, a):
    """`runUntilRefused` on the real code: apply the single calls to the fresh copy `ref`; returns
    (state the combined call must leave, refusing step or None, its error class, [(step, changed something)] completed)."""
    done = []
    for kind, args in sub_steps(a):
        before = snapshot(ref)
        try:
            apply_op(ref, kind, args)
        except Exception as e:  # noqa
            return before, kind, err_class(e), done
        done.append((kind, snapshot(ref) != before))
    return snapshot(ref), None, None, done


def fnum(x):
    """float of a query result (0-d / 1-element arrays included)"""
    import numpy as np
    return float(np.asarray(x, dtype=float).reshape(-1)[0])


def near(x, y, scale=0.0, rel=1e-9):
    import math
    if not (math.isfinite(x) and math.isfinite(y)):
        return (math.isnan(x) and math.isnan(y)) or x == y
    return abs(x - y) <= rel * max(abs(x), abs(y), scale)


def branch_rows(snap, qb):
    return [i for i, b in enumerate(snap["branch"]) if qb is None or int(b) == (0 if qb == "ads" else 1)]


def query(iso, qb, p, l, which=(True, True, True)):
    """loading_at / pressure_at / spreading_pressure_at with default arguments; each result is a float, ('err', class) or None (not asked)."""
    out = []
    for ask, f, x in zip(which, (iso.loading_at, iso.pressure_at, iso.spreading_pressure_at), (p, l, p)):
        if not ask:
            out.append(None)
            continue
        try:
            out.append(fnum(f(x, branch=qb)))
        except Exception as e:  # noqa
            out.append(("err", err_class(e)))
    return out


LETTERS = "abcdefghijklmnopqrstuvwxyz"
P_MODES = ["absolute", "relative", "relative%"]
L_BASES = ["molar", "mass", "volume_gas", "volume_liquid", "fraction", "percent"]
M_BASES = ["mass", "volume", "molar"]


def gen_combined(rng, lab, PSTATES, LSTATES, MSTATES, refuse_at):
    """One `convert(...)` call.  Per position (pressure, material, loading) one role: a valid target in one of the accepted
    argument forms, a repeat of the current representation, absent, or — at `refuse_at` — an argument that names an
    impossible target.  Whether and where the call is refused is decided by the single calls on the real code, not here."""
    known = set(P_MODES + L_BASES + M_BASES) | set(c01.PA) | set(c01.MOL) | set(c01.GRAM) | set(c01.CM3) | {"K", "bogus"}

    def unknown():
        r = rng.random()
        if r < 0.4:
            while True:
                s = "".join(rng.choice(LETTERS) for _ in range(rng.randint(2, 9)))
                if s not in known:
                    return s
        if r < 0.5:
            return rng.choice(sorted(known - {"K"})).capitalize() + "x"          # near miss of a real token
        if r < 0.75:                                                              # a spelling of a valid token (case, long form, padded, one-character edit)
            for _ in range(20):
                s = rng.choice(near_misses(rng.choice(sorted(known - {"bogus"}))))
                if s not in known:
                    return s
        return None

    bases = {"P": P_MODES, "L": L_BASES, "M": M_BASES}
    states = {"P": PSTATES, "L": LSTATES, "M": MSTATES}
    cur = {"P": (lab[0], lab[1]), "L": (lab[2], lab[3]), "M": (lab[4], lab[5])}
    all_units = list(c01.PA) + list(c01.MOL) + list(c01.GRAM) + list(c01.CM3)

    def units_of(pos, b):
        if pos == "P":
            return list(c01.PA) if b == "absolute" else []
        tab = (c01.LTABLE if pos == "L" else c01.MTABLE).get(b)
        return list(tab) if tab else []

    def valid(pos):
        b, u = rng.choice(states[pos])
        if b == cur[pos][0] and u is not None and rng.random() < 0.4:
            return (rng.choice([None, ""]), u)                                   # unit only: the basis / mode stays
        return (b, u)

    def refusing(pos):
        kind = rng.choice(["basis-unknown", "basis-unknown", "basis-foreign", "unit-omitted", "unit-foreign", "unit-unknown"])
        others = [x for q in "PLM" if q != pos for x in bases[q] if x not in bases[pos]]
        if kind == "basis-unknown":
            b = unknown() or rng.choice(others)
            return (b, rng.choice([None, "", cur[pos][1]] + units_of(pos, rng.choice(bases[pos]))))
        if kind == "basis-foreign":                                               # a token of another quantity's family
            b = rng.choice(others)
            return (b, rng.choice([None] + all_units))
        b = rng.choice([x for x in bases[pos]] + [None])
        bb = b if b else cur[pos][0]
        if kind == "unit-omitted":
            cand = [x for x in bases[pos] if x != cur[pos][0] and units_of(pos, x)]
            return (rng.choice(cand) if cand else b, rng.choice([None, ""]))
        if kind == "unit-foreign":
            own = set(units_of(pos, bb))
            cand = [x for x in all_units if x not in own]
            return (b, rng.choice(cand))
        return (b, unknown() or "bogus")

    out = {}
    for pos in "PML":
        if pos == refuse_at:
            out[pos] = refusing(pos)
        else:
            r = rng.random()
            out[pos] = valid(pos) if r < 0.7 else ((None, None) if r < 0.85 else rng.choice([cur[pos], (cur[pos][0], None), (None, cur[pos][1])]))
    return ("A", (out["P"][0], out["P"][1], out["L"][0], out["L"][1], out["M"][0], out["M"][1]))


ARG_UNITS = {"pressure": list(c01.PA), "molar": list(c01.MOL), "mass": list(c01.GRAM), "volume": list(c01.CM3)}

# ---------------------------------------------------------------------------------------------------------------------
# Near-miss spellings of VALID tokens (units, modes, bases): what a user types instead of the exact token.  Whether such a
# spelling names a possible target is decided by the code and by the model (Celsius spellings — anything with a c/C — are
# accepted and normalised by design; everything else is an exact table lookup); the oracles are the general ones: after
# the call the labels are ones the constructor accepts, a refused call changed nothing, data = original converted directly.
LONG_FORMS = {
    "K": ["kelvin", "Kelvin", "KELVIN", "degK", "deg_K", "°K", "ºK", "kelvins", "Kel"],
    "°C": ["C", "c", "celsius", "Celsius", "CELSIUS", "degC", "°c", "ºC", "centigrade", "deg_C", "oC"],
    "Pa": ["pascal", "Pascal", "pascals", "N/m2"], "kPa": ["kilopascal", "kpascal"], "MPa": ["megapascal"], "bar": ["bars", "bara", "barg"],
    "mbar": ["millibar", "mb"], "atm": ["atmosphere", "atmospheres", "at"], "torr": ["Torr", "tor"], "mmHg": ["mmhg", "mm_Hg", "mmHG"],
    "mmol": ["millimol", "millimole", "mmole", "mmols", "mMol"], "mol": ["mole", "moles", "mols"], "kmol": ["kilomol", "kmole"],
    "cm3(STP)": ["cm3STP", "cm3_STP", "cm3(stp)", "cm3", "ccSTP", "cm3(STP"], "mL(STP)": ["ml(STP)", "mL", "mlSTP"], "cc(STP)": ["cc", "CC(STP)"],
    "L(STP)": ["l(STP)", "L", "liter(STP)"],
    "amu": ["u", "Da", "AMU"], "mg": ["milligram", "mgs", "Mg"], "cg": ["centigram"], "dg": ["decigram"], "g": ["gram", "grams", "gr", "gm"],
    "kg": ["kilogram", "kilo", "kgs", "Kg"],
    "cm3": ["cm^3", "cm³", "ccm", "cm-3", "cm3(STP)"], "mL": ["ml", "ML", "milliliter"], "cc": ["CC", "ccs"], "dm3": ["dm^3", "dm³"],
    "L": ["l", "liter", "litre", "lt"], "m3": ["m^3", "m³", "M3"],
    "absolute": ["abs", "Absolute", "absolut", "abs.", "absolute%"], "relative": ["rel", "Relative", "relativ", "p/p0", "relative_"],
    "relative%": ["relative_%", "relative_percent", "Relative%", "rel%", "%", "relativepercent", "relative%%"],
    "molar": ["Molar", "mol", "mole", "molar_", "moles"], "mass": ["Mass", "weight", "g", "massic", "wt"],
    "volume_gas": ["volume", "gas", "Volume_gas", "volume-gas", "volumegas", "volume_STP", "vol_gas"],
    "volume_liquid": ["liquid", "Volume_liquid", "volume-liquid", "volumeliquid", "vol_liquid", "volume_liq"],
    "fraction": ["Fraction", "frac", "fractional", "wt_fraction"], "percent": ["Percent", "%", "percentage", "wt%", "pct"],
    "volume": ["Volume", "vol", "volumetric", "volume_gas", "cm3"],
}
WS = "\u2423"      # stands for a blank in the tokens sent to the Lean driver (its line protocol splits at blanks); the model looks strings up exactly


def near_misses(token):
    """Spellings close to the valid token `token` that are not `token` itself: case variants, long / short forms, padded forms,
    punctuation variants and one-character edits (deterministic order, no duplicates)."""
    t = token
    out = [t.upper(), t.lower(), t.capitalize(), t.swapcase(), t.title()]
    out += LONG_FORMS.get(t, [])
    out += [" " + t, t + " ", " " + t + " ", t + "\t", "\n" + t]                                     # padded
    out += [t + "s", t + ".", t + "_", "_" + t, t + t[-1], t[0] + t]                                # one character too many
    if len(t) > 1:
        out += [t[:-1], t[1:], t[0] + t[2:], t[1] + t[0] + t[2:]]                                   # one too few / swapped
    out += [re.sub(r"[^0-9A-Za-z]", "", t), t.replace("_", "-"), t.replace("_", " "), t.replace("(", " ("), t.replace("3", "^3"), t.replace("%", " %"),
            t.replace("°", ""), t.replace("°", "deg")]
    seen, res = {t, "", "~", '""'}, []
    for x in out:
        if x not in seen and not re.search(r";|\[|\]|=", x):
            seen.add(x)
            res.append(x)
    return res


def mtok(v):
    """`tok` for an argument of a conversion call: blanks inside a string travel as a visible stand-in (see WS)."""
    return tok(re.sub(r"\s", WS, v)) if isinstance(v, str) and v != "" else tok(v)


def gen_op(rng, lab, malformed):
    """One call: (kind, args tuple).  Valid-mostly; `malformed` raises the share of absent/empty/unknown/foreign tokens."""
    def pick(valid, cur):
        r = rng.random()
        if r < (0.35 if malformed else 0.08):
            return rng.choice([None, "", "bogus", "g", "bar", "mol", "cm3", cur])
        if r < (0.5 if malformed else 0.12):                                      # another spelling of a valid token, or of the current one
            return rng.choice(near_misses(rng.choice(valid + ([cur] if cur else []))))
        return rng.choice(valid)
    k = rng.random()
    if k < 0.25:
        m = pick(["absolute", "relative", "relative%"], lab[0])
        u = pick(list(c01.PA), lab[1])
        return ("P", (m, u))
    if k < 0.5:
        b = pick(["molar", "mass", "volume_gas", "volume_liquid", "fraction", "percent"], lab[2])
        tab = c01.LTABLE.get(b if b in c01.LTABLE else "molar")
        u = pick(list(tab), lab[3])
        return ("L", (b, u))
    if k < 0.72:
        b = pick(["mass", "volume", "molar"], lab[4])
        tab = c01.MTABLE.get(b if b in c01.MTABLE else "mass")
        u = pick(list(tab), lab[5])
        return ("M", (b, u))
    if k < 0.8:
        if rng.random() < (0.4 if malformed else 0.15):                           # spellings of the two units (kelvin: impossible targets; Celsius: accepted, stored as '°C')
            return ("T", (rng.choice(near_misses(rng.choice(["K", "°C"]))),))
        return ("T", (pick(["K", "°C", "C", "celsius"], lab[6]),))
    # combined call
    args = []
    for kind in ("pm", "pu", "lb", "lu", "mb", "mu"):
        if rng.random() < 0.5:
            args.append(None)
        elif kind == "pm":
            args.append(pick(["absolute", "relative", "relative%"], lab[0]))
        elif kind == "pu":
            args.append(pick(list(c01.PA), lab[1]))
        elif kind == "lb":
            args.append(pick(["molar", "mass", "volume_gas", "volume_liquid", "fraction", "percent"], lab[2]))
        elif kind == "lu":
            args.append(pick(list(c01.MOL) + list(c01.GRAM) + list(c01.CM3), lab[3]))
        elif kind == "mb":
            args.append(pick(["mass", "volume", "molar"], lab[4]))
        else:
            args.append(pick(list(c01.GRAM) + list(c01.CM3) + list(c01.MOL), lab[5]))
    return ("A", tuple(args))


def apply_op(iso, kind, a):
    if kind == "P":
        iso.convert_pressure(mode_to=a[0], unit_to=a[1])
    elif kind == "L":
        iso.convert_loading(basis_to=a[0], unit_to=a[1])
    elif kind == "M":
        iso.convert_material(basis_to=a[0], unit_to=a[1])
    elif kind == "T":
        iso.convert_temperature(unit_to=a[0])
    else:
        iso.convert(pressure_mode=a[0], pressure_unit=a[1], loading_basis=a[2], loading_unit=a[3], material_basis=a[4], material_unit=a[5])


def single_step_args(lab, rng=None, k=6):
    """Every argument class for the three single-quantity conversions from this label state; with `rng` also near-miss spellings of valid
    tokens: every one of the two temperature units, and `k` sampled ones per argument position of the other calls (next to an absent, the
    current and a valid partner argument)."""
    ops = []
    if rng is not None:
        cur_tab_l = c01.LTABLE.get(lab[2]) or c01.MOL
        cur_tab_m = c01.MTABLE.get(lab[4]) or c01.GRAM
        def nm(tokens):
            return rng.choice(near_misses(rng.choice(list(tokens))))
        for _ in range(k):
            ops.append(("P", (nm(P_MODES + [lab[0]]), rng.choice([None, lab[1], "bar", "kPa"]))))
            ops.append(("P", (rng.choice([None, "absolute", lab[0]]), nm(list(c01.PA) + ([lab[1]] if lab[1] else [])))))
            ops.append(("L", (nm(L_BASES + [lab[2]]), rng.choice([None, lab[3], "mmol", "mg", "cm3"]))))
            b = rng.choice([None, lab[2], "molar", "mass", "volume_gas"])
            ops.append(("L", (b, nm(c01.LTABLE.get(b) or cur_tab_l))))
            ops.append(("M", (nm(M_BASES + [lab[4]]), rng.choice([None, lab[5], "g", "cm3", "mol"]))))
            b = rng.choice([None, lab[4], "mass", "volume", "molar"])
            ops.append(("M", (b, nm(c01.MTABLE.get(b) or cur_tab_m))))
            i = rng.randrange(6)                                                  # the combined call with one misspelt argument
            ops.append(("A", tuple(nm(t) if i == j else None for j, t in enumerate((P_MODES, list(c01.PA), L_BASES, list(cur_tab_l), M_BASES, list(cur_tab_m))))))
        for u in near_misses("K") + near_misses("°C"):
            ops.append(("T", (u,)))
    for m in [None, "", "absolute", "relative", "relative%", "bogus"]:
        for u in [None, "", "bogus", "g"] + list(c01.PA):
            ops.append(("P", (m, u)))
    for b in [None, "", "molar", "mass", "volume_gas", "volume_liquid", "fraction", "percent", "bogus"]:
        units = [None, "", "bogus", "bar"] + (list(c01.LTABLE[b]) if b in c01.LTABLE else ["mmol", "g"])
        for u in units:
            ops.append(("L", (b, u)))
    for b in [None, "", "mass", "volume", "molar", "fraction", "bogus"]:
        units = [None, "", "bogus", "bar"] + (list(c01.MTABLE[b]) if b in c01.MTABLE else ["g", "cm3"])
        for u in units:
            ops.append(("M", (b, u)))
    for u in [None, "", "K", "°C", "C", "celsius", "F"]:
        ops.append(("T", (u,)))
    return ops


def frame_problem(obj, saved):
    """None when the caller's object `obj` (DataFrame / Series / ndarray / list) still equals the copy `saved` taken before it was handed to a
    constructor (values bit for bit, dtypes, column order, row labels); otherwise what differs."""
    import numpy as np
    import pandas as pd
    if isinstance(obj, pd.DataFrame):
        if list(obj.columns) != list(saved.columns):
            return {"columns_before": [str(c) for c in saved.columns], "columns_now": [str(c) for c in obj.columns]}
        if list(obj.index) != list(saved.index):
            return {"row_labels_before": [str(c) for c in saved.index], "row_labels_now": [str(c) for c in obj.index]}
        for c in saved.columns:
            if str(obj[c].dtype) != str(saved[c].dtype) or not obj[c].equals(saved[c]):
                return {"column": str(c), "before": [str(x) for x in saved[c]][:6], "now": [str(x) for x in obj[c]][:6],
                        "dtype_before": str(saved[c].dtype), "dtype_now": str(obj[c].dtype)}
        return None
    if isinstance(obj, pd.Series):
        if list(obj.index) != list(saved.index) or str(obj.dtype) != str(saved.dtype) or not obj.equals(saved):
            return {"before": [str(x) for x in saved][:6], "now": [str(x) for x in obj][:6]}
        return None
    if isinstance(obj, np.ndarray):
        if obj.dtype != saved.dtype or obj.shape != saved.shape or not np.array_equal(obj, saved):
            return {"before": [str(x) for x in saved][:6], "now": [str(x) for x in obj][:6]}
        return None
    return None if obj == saved else {"before": str(saved)[:200], "now": str(obj)[:200]}


def copy_of(obj):
    import numpy as np
    import pandas as pd
    if isinstance(obj, (pd.DataFrame, pd.Series)):
        return obj.copy(deep=True)
    if isinstance(obj, np.ndarray):
        return obj.copy()
    return list(obj)


ALIAS_LAYOUTS = ["internal", "internal-own-keys", "table-of-another-isotherm", "data()-of-another-isotherm", "permuted-with-branch", "no-branch-column",
                 "arrays"]


def alias_family(ck, pg, worlds, all_states):
    """(d) Constructor arguments are the CALLER'S objects.  Several isotherms are built from ONE table (in the internal column layout — pressure,
    loading, branch, the others sorted; with own column names; the `data_raw` / `data()` of another isotherm; permuted; without branch column) or from
    one set of arrays / Series / lists; ONE of them goes through a seeded history of permanent conversions.  After every call: every caller's object
    that is not documented as the converted isotherm's own table equals the copy taken before construction, every other isotherm is unchanged (labels,
    every cell, branch, extra columns, row labels, metadata).  At the end a second one of them is converted DIRECTLY to the final representation: it
    must equal the one taken through the history (`stored data = original data converted directly`, on the real code), and that conversion in turn
    leaves the first and all others as they were; back to the start restores the numbers of the actor."""
    import numpy as np
    import pandas as pd
    rng = ck.rng
    n_cases = 0
    for case_i in range(ck.n(120, 600)):
        st = rng.choice(all_states)
        lab = [st[0][0], st[0][1], st[1][0], st[1][1], st[2][0], st[2][1], st[3]]
        w = rng.choice(worlds)
        tval = w.temp if lab[6] == "K" else w.temp - 273.15
        n = rng.randint(2, 8)
        ps = sorted(rng.uniform(0.01, 0.99) for _ in range(n))
        ls = [rng.uniform(0.05, 5.0) for _ in range(n)]
        br = [0] * (n - n // 3) + [1] * (n // 3)
        layout = ALIAS_LAYOUTS[case_i % len(ALIAS_LAYOUTS)] if case_i < 2 * len(ALIAS_LAYOUTS) else rng.choice(ALIAS_LAYOUTS)
        meta = dict(material=w.mat.name, adsorbate=w.ads.name, temperature=tval, pressure_mode=lab[0], pressure_unit=lab[1], loading_basis=lab[2],
                    loading_unit=lab[3], material_basis=lab[4], material_unit=lab[5], temperature_unit=lab[6], note="kept", n=3)
        pk, lk = ("pressure", "loading") if layout != "internal-own-keys" else rng.choice([("p", "uptake"), ("P [x]", "N [y]"), ("a_pressure", "b_loading")])
        extra = {"enthalpy": [5.0 + i for i in range(n)], "tag": [f"r{i}" for i in range(n)]}
        extra = {c: extra[c] for c in rng.choice([["enthalpy", "tag"], ["enthalpy", "tag"], ["enthalpy"], ["tag"], []])}   # also tables with nothing but the two columns
        held = {}            # the caller's objects: name -> (object, copy before any constructor saw it)
        bystanders = {}      # name -> isotherm
        own_table_of = None  # name of the isotherm whose table the caller's frame is BY DOCUMENTATION (data() / data_raw return the stored frame)
        try:
            if layout == "arrays":
                kind = rng.choice(["ndarray", "Series", "list", "ndarray"])
                mk = {"ndarray": lambda x: np.array(x, dtype=float), "Series": lambda x: pd.Series(list(x), dtype=float), "list": list}[kind]
                pa, la = mk(ps), mk(ls)
                ba = rng.choice([np.array(br), list(br), np.array(br, dtype=bool)])
                held = {"pressure argument": (pa, copy_of(pa)), "loading argument": (la, copy_of(la)), "branch argument": (ba, copy_of(ba))}
                build = lambda: pg.PointIsotherm(pressure=pa, loading=la, branch=ba, **meta)  # noqa
            else:
                if layout in ("table-of-another-isotherm", "data()-of-another-isotherm"):
                    src = make_iso(pg, w, lab, ps, ls, tval, branch=br)
                    frame = src.data_raw if layout == "table-of-another-isotherm" else src.data()
                    bystanders["source"] = src
                    own_table_of = "source"
                else:
                    cols = {pk: ps, lk: ls, "branch": br, **extra}
                    order = [pk, lk, "branch"] + sorted(extra)
                    if layout == "permuted-with-branch":
                        order = rng.sample(order, len(order))
                    elif layout == "no-branch-column":
                        order = [c for c in (order if rng.random() < 0.5 else rng.sample(order, len(order))) if c != "branch"]
                    frame = pd.DataFrame({c: cols[c] for c in order})
                    if "branch" in order and rng.random() < 0.3:                    # row labels that are not 0..n-1 (marks are in the table: nothing is aligned)
                        frame.index = rng.choice([list(range(10, 10 + n)), [f"pt{i}" for i in range(n)], list(range(n - 1, -1, -1))])
                held = {"table": (frame, copy_of(frame))}
                if "branch" in frame.columns:
                    build = lambda: pg.PointIsotherm(isotherm_data=frame, pressure_key=pk, loading_key=lk, **meta)  # noqa
                else:
                    ba = rng.choice([np.array(br), list(br)])
                    held["branch argument"] = (ba, copy_of(ba))
                    build = lambda: pg.PointIsotherm(isotherm_data=frame, pressure_key=pk, loading_key=lk, branch=ba, **meta)  # noqa
            first = build()
            bystanders["first"] = first
            # from_isotherm has no branch argument: only for tables that carry their marks
            bystanders["second"] = build() if (layout == "arrays" or "branch" not in frame.columns or rng.random() < 0.6) else \
                pg.PointIsotherm.from_isotherm(first, isotherm_data=frame, pressure_key=pk, loading_key=lk)
            if rng.random() < 0.4:
                bystanders["third"] = build()
        except Exception as e:  # noqa  construction is C05's subject
            ck.cov["distribution"]["alias:construction-refused"] = ck.cov["distribution"].get("alias:construction-refused", 0) + 1
            continue
        n_cases += 1
        names = sorted(bystanders)
        actor_name = rng.choice([x for x in names if x != "source"] + (["source"] if "source" in names and rng.random() < 0.5 else []))
        actor = bystanders[actor_name]
        start = {x: snapshot(bystanders[x]) for x in names}
        desc = {"layout": layout, "columns": [str(c) for c in held["table"][1].columns] if "table" in held else None,
                "row_labels": [str(c) for c in held["table"][1].index] if "table" in held else None,
                "isotherms_built_from_the_same_arguments": names, "converted": actor_name, "adsorbate": w.ads.name, "material": w.mat.name,
                "start_labels": [str(x) for x in lab], "pressure": ps, "loading": ls, "branch": br, "temperature": tval}

        def others_problem(changed, sig, calls):
            """the caller's objects and every isotherm not in `changed` are as they were"""
            for hname, (obj, saved) in held.items():
                if hname == "table" and own_table_of in changed:
                    continue            # documented: data() / data_raw ARE the stored table of that isotherm
                bad = frame_problem(obj, saved)
                if bad:
                    ck.fail_case({**sig, "clause": "a permanent conversion altered the caller's original data", "object": hname, "layout": layout},
                                 {"difference": bad, "calls": calls, "case": desc})
                    return True
            for x in names:
                if x in changed:
                    continue
                now = snapshot(bystanders[x])
                if now != start[x]:
                    f = [k for k in now if now[k] != start[x][k]]
                    ck.fail_case({**sig, "clause": "a permanent conversion of one isotherm changed another isotherm built from the same arguments",
                                  "changed": x, "differs": f, "layout": layout},
                                 {"before": {k: start[x][k] for k in f}, "now": {k: now[k] for k in f}, "calls": calls, "case": desc})
                    return True
            return False

        calls, stop = [], False
        ops = []
        for _ in range(rng.randint(1, 4)):
            ops.append(None)
        back = rng.random() < 0.3
        for k in range(len(ops) + (2 if back else 0)):
            cur = labels_of(actor)
            if k < len(ops):
                kind, a = gen_op(rng, cur, False)
            elif k == len(ops):
                kind, a = "A", (lab[0], lab[1], lab[2], lab[3], lab[4], lab[5])
            else:
                kind, a = "T", (lab[6],)
            before = snapshot(actor)
            try:
                apply_op(actor, kind, a)
                out = "ok"
            except Exception as e:  # noqa
                out = err_class(e)
            after = snapshot(actor)
            calls.append([kind, [str(x) for x in a], out])
            sig = {"op": kind, "args": [str(x) for x in a], "from": [str(x) for x in cur]}
            ck.count(("alias", layout, kind, tuple(cur), a), nontrivial=(out == "ok" and before != after), bucket="alias:" + layout + ":" + ("ok" if out == "ok" else "refused"))
            if others_problem({actor_name}, sig, calls):
                stop = True
                break
        if stop:
            continue
        final = snapshot(actor)
        flab = final["labels"]
        sig = {"op": "A", "args": [str(x) for x in flab[:6]], "from": [str(x) for x in lab]}
        if back and flab == lab and calls[-1][2] == "ok" and calls[-2][2] == "ok":
            s0 = start[actor_name]
            if not all(near(x, y, rel=1e-9) for x, y in zip(final["p"] + final["l"], s0["p"] + s0["l"])):
                ck.fail_case({**sig, "clause": "back to start restores the numbers", "layout": layout}, {"start": s0["p"] + s0["l"], "end": final["p"] + final["l"], "calls": calls, "case": desc})
                continue
        # the second object converted directly to the final representation
        direct_name = rng.choice([x for x in names if x != actor_name and x != "source"] or [x for x in names if x != actor_name])
        direct = bystanders[direct_name]
        try:
            direct.convert(pressure_mode=flab[0], pressure_unit=flab[1], loading_basis=flab[2], loading_unit=flab[3], material_basis=flab[4], material_unit=flab[5])
            direct.convert_temperature(unit_to=flab[6])
            dout = "ok"
        except Exception as e:  # noqa
            dout = err_class(e)
        dsnap = snapshot(direct)
        calls2 = calls + [["direct conversion of '" + direct_name + "'", [str(x) for x in flab], dout]]
        ck.count(("alias-direct", layout, tuple(lab), tuple(flab)), nontrivial=(dout == "ok" and dsnap != start[direct_name]), bucket="alias:direct:" + ("ok" if dout == "ok" else "refused"))
        if dout != "ok":
            ck.fail_case({**sig, "clause": "conversion to a valid representation refused", "outcome": dout, "layout": layout}, {"calls": calls2, "case": desc})
            continue
        diff = [f for f in ("labels", "branch", "extra", "index", "props", "mat", "ads") if dsnap[f] != final[f]]
        diff += [f for f in ("p", "l") if len(dsnap[f]) != len(final[f]) or not all(near(x, y, rel=1e-9) for x, y in zip(dsnap[f], final[f]))]
        diff += [] if near(dsnap["t"], final["t"], rel=1e-12) else ["t"]
        if diff:
            ck.fail_case({**sig, "clause": "data = original converted directly", "differs": diff, "layout": layout},
                         {"through_the_history": {x: final[x] for x in ("labels", "p", "l", "t")}, "converted_directly": {x: dsnap[x] for x in ("labels", "p", "l", "t")},
                          "calls": calls2, "case": desc})
            continue
        if snapshot(actor) != final:
            now = snapshot(actor)
            f = [k for k in now if now[k] != final[k]]
            ck.fail_case({**sig, "clause": "a permanent conversion of one isotherm changed another isotherm built from the same arguments", "changed": actor_name,
                          "differs": f, "layout": layout}, {"before": {k: final[k] for k in f}, "now": {k: now[k] for k in f}, "calls": calls2, "case": desc})
            continue
        others_problem({actor_name, direct_name}, sig, calls2)
    ck.cov["aliasing_cases"] = n_cases


def run(ck):
    pg = import_pygaps()
    rng = ck.rng
    thorough = ck.tier == "thorough"
    # exact-constant stub adsorbate / material (stored so that isotherms can be built by name)
    pg.Adsorbate("pgv_stub", store=True, molar_mass=28.5, saturation_pressure=123456.0, liquid_density=0.81, gas_density=0.0047,
                 liquid_molar_density=0.81 / 28.5, gas_molar_density=0.0047 / 28.5)
    pg.Adsorbate("pgv_nodens", store=True, molar_mass=30.0, saturation_pressure=5e4)
    pg.Material("pgv_mat", store=True, density=2.3, molar_mass=321.0)
    worlds = [World(pg, "stub", "pgv_stub", "pgv_mat", 77.0), World(pg, "N2", "N2", "pgv_mat", 77.355)]
    w_nodens = World(pg, "nodens", "pgv_nodens", "pgv_mat", 77.0)
    # for the combined calls: an adsorbate without saturation pressure (no relative modes), a material without density / molar mass
    pg.Adsorbate("pgv_nopsat", store=True, molar_mass=44.0, liquid_density=1.1, gas_density=0.0019,
                 liquid_molar_density=1.1 / 44.0, gas_molar_density=0.0019 / 44.0)
    pg.Material("pgv_mat_nodens", store=True, molar_mass=250.0)
    pg.Material("pgv_mat_nomm", store=True, density=1.7)
    w_partial = [w_nodens, World(pg, "nopsat", "pgv_nopsat", "pgv_mat", 77.0), World(pg, "matnodens", "pgv_stub", "pgv_mat_nodens", 77.0),
                 World(pg, "matnomm", "pgv_stub", "pgv_mat_nomm", 77.0)]

    PSTATES = [("absolute", u) for u in c01.PA] + [("relative", None), ("relative%", None)]
    LSTATES = [(b, u) for b in ("molar", "mass", "volume_gas", "volume_liquid") for u in c01.LTABLE[b]] + [("fraction", None), ("percent", None)]
    MSTATES = [(b, u) for b in ("mass", "volume", "molar") for u in c01.MTABLE[b]]
    TSTATES = ["K", "°C"]

    cases = []      # (world, start labels, data, tval, [ops])
    # --- (a) single steps
    all_states = list(itertools.product(PSTATES, LSTATES, MSTATES, TSTATES))
    nstates = len(all_states) if False else (ck.n(8, 60))
    for st in rng.sample(all_states, nstates):
        lab = [st[0][0], st[0][1], st[1][0], st[1][1], st[2][0], st[2][1], st[3]]
        w = rng.choice(worlds)
        ps = [0.11, 0.52, 0.93] if lab[0] != "absolute" else [1.5, 22.0, 310.0]
        ls = [0.25, 1.5, 2.75]
        for op in single_step_args(lab, rng, ck.n(6, 12)):
            cases.append((w, lab, ps, ls, w.temp if lab[6] == "K" else w.temp - 273.15, [op]))
    # --- (a2) two-step conversions that can be refused half-way: a fraction / percent loading + a change of the material representation first converts the
    # material and then re-expresses the loading, which needs the adsorbate's density under a volume basis; in the worlds that LACK a constant the second
    # step is refused after the first has succeeded (round 6, C02-m11: the two results written one after the other; caught on 2 seeds of 3 only, because
    # (a) never used these worlds).  Every target material representation from a few fraction / percent states of each such world.
    for w in w_partial:
        for lb in ("fraction", "percent"):
            for m0 in rng.sample(MSTATES, ck.n(2, 6)):
                pm = rng.choice(PSTATES) if w.props.psat is not None else ("absolute", rng.choice(list(c01.PA)))
                tu = rng.choice(TSTATES)
                lab = [pm[0], pm[1], lb, None, m0[0], m0[1], tu]
                ps = [0.11, 0.52, 0.93] if lab[0] != "absolute" else [1.5, 22.0, 310.0]
                for mt in MSTATES:
                    if mt != m0:
                        cases.append((w, lab, ps, [0.25, 1.5, 2.75], w.temp if tu == "K" else w.temp - 273.15, [("M", (mt[0], mt[1]))]))
    n_single = len(cases)
    # --- (b) histories
    nh = ck.n(60, 400)
    for i in range(nh):
        st = rng.choice(all_states)
        lab = [st[0][0], st[0][1], st[1][0], st[1][1], st[2][0], st[2][1], st[3]]
        w = worlds[0] if rng.random() < 0.6 else (w_nodens if rng.random() < 0.25 else worlds[1])
        n = rng.randint(1, 12)
        ps = sorted(rng.uniform(0.01, 0.99) for _ in range(n))
        ls = [rng.uniform(0.0, 5.0) for _ in range(n)]
        malformed = rng.random() < 0.3
        ops, cur = [], list(lab)
        for _ in range(rng.randint(1, ck.n(12, 25))):
            ops.append(gen_op(rng, cur, malformed))
        # back to the start at the end of some histories
        if rng.random() < 0.4:
            ops.append(("A", (lab[0], lab[1], lab[2], lab[3], lab[4], lab[5])))
            ops.append(("T", (lab[6],)))
        cases.append((w, lab, ps, ls, w.temp if lab[6] == "K" else w.temp - 273.15, ops))

    n_hist_end = len(cases)
    # --- (c) combined calls: a refusing argument in each of the three positions (or none) next to valid changes in the others
    for i in range(ck.n(180, 1800)):
        st = rng.choice(all_states)
        lab = [st[0][0], st[0][1], st[1][0], st[1][1], st[2][0], st[2][1], st[3]]
        w = rng.choice(worlds) if rng.random() < 0.7 else rng.choice(w_partial)
        if w.props.psat is None:
            lab[0], lab[1] = "absolute", rng.choice(list(c01.PA))          # the constructor accepts it, but nothing can be said in relative modes
        n = rng.randint(2, 6)
        ps = sorted(rng.uniform(0.01, 0.99) for _ in range(n))
        ls = [rng.uniform(0.05, 5.0) for _ in range(n)]
        refuse_at = rng.choice(["P", "M", "M", "L", "L", None])
        ops = []
        if rng.random() < 0.3:                                              # not always from a freshly constructed isotherm
            ops.append(gen_op(rng, lab, False))
        ops.append(gen_combined(rng, lab, PSTATES, LSTATES, MSTATES, refuse_at))
        if rng.random() < 0.3:
            ops.append(("A", (lab[0], lab[1], lab[2], lab[3], lab[4], lab[5])))
        cases.append((w, lab, ps, ls, w.temp if lab[6] == "K" else w.temp - 273.15, ops))

    # ------------------------------------------------------------------ run the implementation, collect model requests
    import time
    t_start = time.time()
    lines, plan = [], []
    impl = []
    for ci, (w, lab, ps, ls, tval, ops) in enumerate(cases):
        try:
            iso = make_iso(pg, w, lab, ps, ls, tval)
        except Exception as e:  # noqa
            continue
        lines.append(w.ctx_line())
        lines.append(" ".join(["init"] + [tok(x) for x in lab] + [tok([frac(x) for x in ps]), tok([frac(x) for x in ls]), qstr(tval)]))
        plan.append(("init", ci, None))
        plan.append(("init2", ci, None))
        s0 = snapshot(iso)
        trace = []
        for kind, a in ops:
            before = snapshot(iso)
            # fill both interpolator slots (seeded branch) so that a dropped reset is observable by the queries afterwards
            qb = rng.choice(sorted({"ads" if int(b) == 0 else "des" for b in before["branch"]}) + ([None] if rng.random() < 0.3 else []))
            rows = branch_rows(before, qb)
            qi = rng.choice(rows[1:] if len(rows) > 1 else rows)
            query(iso, qb, before["p"][qi], before["l"][qi], which=(True, True, False))
            # single-step family (argument classes on 3-row isotherms): the queries after the call on a seeded half; histories and combined calls: always
            ask_after = ci >= n_single or rng.random() < 0.5
            had = (iso.l_interpolator is not None, iso.p_interpolator is not None)
            ref = None
            if kind == "A":
                try:
                    ref = clone(pg, iso)
                except Exception:  # noqa
                    ref = None
            try:
                apply_op(iso, kind, a)
                out = "ok"
            except Exception as e:  # noqa
                out = err_class(e)
            has = (iso.l_interpolator is not None, iso.p_interpolator is not None)
            after = snapshot(iso)
            rebuilt = rebuild_problem(iso)
            # queries at the same measured point (same row, same branch) after the call, and on a freshly constructed copy
            q_iso = q_fresh = None
            if ask_after:
                q_iso = query(iso, qb, after["p"][qi], after["l"][qi])
                # the fresh copy answers what has no stored datum to compare with: spreading pressure always, pressure_at when the loading is not unique
                uniq = [after["l"][i] for i in branch_rows(after, qb)].count(after["l"][qi]) == 1
                try:
                    q_fresh = query(clone(pg, iso), qb, after["p"][qi], after["l"][qi], which=(False, not uniq, True))
                except Exception:  # noqa
                    q_fresh = None
            exp = expected_combined(ref, a) if ref is not None else None
            trace.append((kind, a, before, out, after, had, has, (qb, qi, q_iso, q_fresh), exp, rebuilt))
            lines.append("cache " + tok(had[0]) + " " + tok(had[1]))
            plan.append(("cache", ci, None))
            if kind == "A":
                lines.append(" ".join(["S"] + [mtok(x) for x in a]))     # Model/IsoSeq.lean: the single calls, stopped at the first refusal
                plan.append(("seq", ci, len(trace) - 1))
            lines.append(" ".join([kind] + [mtok(x) for x in a]))
            plan.append(("op", ci, len(trace) - 1))
        impl.append((ci, w, s0, trace, iso))
    t_impl = time.time()
    try:
        replies = ck.drive("IsoState", lines)
    except Exception as e:
        replies = None
        ck.broken.append({"step": "driver IsoState", "what": str(e)[:600]})
    t_drv = time.time()
    rep_of, seq_of = {}, {}
    if replies:
        for (tag, ci, k), r in zip(plan, replies):
            if tag == "op":
                rep_of[(ci, k)] = r
            elif tag == "seq":
                seq_of[(ci, k)] = r

    # ------------------------------------------------------------------ compare + invariant oracle
    n_dis = n_dis_seq = n_seq = 0
    for ci, w, s0, trace, iso in impl:
        single = ci < n_single
        fam = "single:" if single else ("history:" if ci < n_hist_end else "combined:")
        P = w.props
        complete = all(P.q[k] is not None for k in P.q) and P.psat is not None and P.md is not None and P.mm is not None
        iso_desc = {"adsorbate": s0["ads"], "material": w.mat.name, "start_labels": [str(x) for x in s0["labels"]], "pressure": s0["p"], "loading": s0["l"],
                    "temperature": s0["t"], "branch": [int(b) for b in s0["branch"]],
                    "calls_before": None}
        c0 = [canon(w, s0["labels"], p, l) for p, l in zip(s0["p"], s0["l"])] if complete else None
        k0 = tempK(s0["labels"], s0["t"])
        for k, (kind, a, before, out, after, had, has, (qb, qi, q_iso, q_fresh), exp, rebuilt) in enumerate(trace):
            iso_desc["calls_before"] = [[x[0], [str(y) for y in x[1]], x[3]] for x in trace[:k]]
            changed_repr = before["labels"] != after["labels"]
            ck.count((kind, tuple(before["labels"]), a), nontrivial=(out == "ok" and (changed_repr or before["p"] != after["p"] or before["l"] != after["l"])),
                     bucket=fam + kind + ":" + out,
                     sample={"start": before["labels"], "op": [kind, list(a)], "outcome": out, "labels_after": after["labels"],
                             "model": rep_of.get((ci, k), "")[:160]} if (ci * 31 + k) % 977 == 0 else None)
            sig = {"op": kind, "args": [repr(x) if isinstance(x, str) and x != x.strip() else str(x) for x in a], "from": [str(x) for x in before["labels"]]}
            # --- oracle 1: structure never touched
            for f in ("branch", "extra", "index", "props", "mat", "ads"):
                if before[f] != after[f]:
                    ck.fail_case({**sig, "clause": "untouched:" + f}, {"before": str(before[f])[:200], "after": str(after[f])[:200]})
            # --- oracle 1b: a conversion to a valid representation, with every property it needs available, is not refused
            if out != "ok" and complete and kind in ("P", "L", "M"):
                if kind == "P":
                    ok_args = len(a) == 2 and ((a[0] == "absolute" and a[1] in c01.PA) or (a[0] in ("relative", "relative%") and a[1] is None))
                elif kind == "L":
                    ok_args = len(a) == 2 and ((a[0] in c01.LTABLE and a[1] in c01.LTABLE[a[0]]) or (a[0] in ("fraction", "percent") and a[1] is None))
                else:
                    ok_args = len(a) == 2 and a[0] in c01.MTABLE and a[1] in c01.MTABLE[a[0]]
                if ok_args:
                    ck.fail_case({**sig, "clause": "conversion to a valid representation refused", "outcome": out}, {"labels": [str(x) for x in before["labels"]]})
            # --- oracle 2: refused single-quantity call changes nothing
            if out != "ok" and kind != "A":
                if before != after:
                    ck.fail_case({**sig, "clause": "refused call changed the isotherm", "outcome": out},
                                 {"before": {x: before[x] for x in ("labels", "p", "l", "t")}, "after": {x: after[x] for x in ("labels", "p", "l", "t")}})
            # --- oracle 2c: the combined call = its single calls in the documented order, stopped at the first refusal
            if kind == "A" and exp is not None:
                want, ref_step, ref_err, done = exp
                changed_before = [s for s, ch in done if ch]
                bk = "combined-oracle:" + ("accepted" if ref_step is None else "refused-at-" + ref_step + ("-after-effective-steps" if changed_before else ""))
                ck.cov["distribution"][bk] = ck.cov["distribution"].get(bk, 0) + 1
                steps_txt = {"single_calls_in_order": [[s, [str(y) for y in x]] for s, x in sub_steps(a)], "completed_singly": [s for s, _ in done],
                             "refused_singly": ref_step, "refused_singly_with": ref_err, "combined_outcome": out}
                if (out != "ok") != (ref_step is not None):
                    ck.fail_case({**sig, "clause": "combined call refused iff one of its single steps is", "outcome": out, "refusing_step": str(ref_step)},
                                 {**steps_txt, "isotherm": iso_desc})
                diff = [f for f in ("labels", "branch", "extra", "index", "props", "mat", "ads") if after[f] != want[f]]
                diff += [f for f in ("p", "l") if len(after[f]) != len(want[f]) or not all(near(x, y, rel=1e-12) for x, y in zip(after[f], want[f]))]
                diff += [] if near(after["t"], want["t"], rel=1e-12) else ["t"]
                if diff:
                    clause = ("refused combined call leaves exactly the steps completed before the refusal" if out != "ok"
                              else "accepted combined call equals the sequence of its single calls")
                    ck.fail_case({**sig, "clause": clause, "differs": diff, "refusing_step": str(ref_step)},
                                 {**steps_txt, "isotherm": iso_desc,
                                  "after_combined_call": {x: after[x] for x in ("labels", "p", "l", "t")},
                                  "after_single_calls": {x: want[x] for x in ("labels", "p", "l", "t")}})
            # --- oracle 2q: queries are answered from the stored data (measured point gives the stored datum; same answers as a fresh copy)
            if q_iso is not None:
                rows = branch_rows(after, qb)
                sp, sl = max(abs(after["p"][i]) for i in rows), max(abs(after["l"][i]) for i in rows)
                datum = [after["l"][qi], after["p"][qi] if [after["l"][i] for i in rows].count(after["l"][qi]) == 1 else None, None]
                names = ["loading_at", "pressure_at", "spreading_pressure_at"]
                for name, got, fresh, dat, scale in zip(names, q_iso, q_fresh or [None, None, None], datum, [sl, sp, 0.0]):
                    bad = None
                    if fresh is not None and (isinstance(got, tuple) or isinstance(fresh, tuple)):
                        if got != fresh and not (isinstance(got, tuple) and isinstance(fresh, tuple)):
                            bad = "raises on one of the two only"
                    elif fresh is not None and not near(got, fresh, scale):
                        bad = "differs from a freshly constructed copy of the stored state"
                    elif dat is not None and (isinstance(got, tuple) or not near(got, dat, scale)):
                        bad = "measured point does not give the stored datum"
                    if bad:
                        ck.fail_case({**sig, "clause": "query after the call is answered from the stored data", "query": name, "how": bad, "outcome": out},
                                     {"branch": str(qb), "row": qi, "at_pressure": after["p"][qi], "at_loading": after["l"][qi], "answer": str(got),
                                      "fresh_copy_answers": str(fresh), "stored_datum": dat, "isotherm": iso_desc,
                                      "after_call": {x: after[x] for x in ("labels", "p", "l")}, "slots_filled_before_call": list(had)})
                        break
            # --- oracle 3: labels valid and data = original converted directly (SI tables)
            lab = after["labels"]
            valid = (lab[0] in ("absolute", "relative", "relative%") and (lab[0] != "absolute" or lab[1] in c01.PA)
                     and lab[2] in ("molar", "mass", "volume_gas", "volume_liquid", "fraction", "percent") and lab[4] in c01.MTABLE
                     and (lab[2] in ("fraction", "percent") or (lab[3] in c01.LTABLE[lab[2]] and lab[5] in c01.MTABLE[lab[4]]))
                     and lab[6] in ("K", "°C"))
            if not valid:
                ck.fail_case({**sig, "clause": "labels no constructor accepts", "labels_after": [str(x) for x in lab]}, {"outcome": out})
                break
            # the labels name exactly that representation: the constructor stores no pressure unit for the relative modes
            if lab[0] != "absolute" and lab[1] is not None:
                ck.fail_case({**sig, "clause": "labels are not those the constructor stores for this representation", "label": "pressure_unit"},
                             {"labels_after": [str(x) for x in lab], "outcome": out})
                break
            if rebuilt is not None:                                                # after every call, accepted or refused
                ck.fail_case({**sig, "clause": "constructor rejects to_dict()", "outcome": out}, {"labels": [str(x) for x in lab], "how": rebuilt, "isotherm": iso_desc})
                break
            if c0 is not None and lab[2] not in ("fraction", "percent") or (c0 is not None and lab[5] in c01.MTABLE.get(lab[4], {})):
                try:
                    cn = [canon(w, lab, p, l) for p, l in zip(after["p"], after["l"])]
                except Exception:
                    cn = None
                if cn is not None:
                    bad = [i for i, (x, y) in enumerate(zip(c0, cn)) if not (close(x[0], y[0], rel=1e-10) and close(x[1], y[1], rel=1e-10, abs_=1e-290))]
                    if bad:
                        i = bad[0]
                        ck.fail_case({**sig, "clause": "data = original converted directly"},
                                     {"row": i, "original": [s0["labels"], s0["p"][i], s0["l"][i]], "now": [lab, after["p"][i], after["l"][i]],
                                      "SI_original": [float(c0[i][0]), float(c0[i][1])], "SI_now": [float(cn[i][0]), float(cn[i][1])]})
                        break
            if not close(tempK(lab, after["t"]), k0, rel=1e-12):
                ck.fail_case({**sig, "clause": "temperature conserved"}, {"K_before": float(k0), "K_after": float(tempK(lab, after["t"]))})
            # --- oracle 4: a successful conversion that changed data drops the interpolators
            if (had[0] and has[0] or had[1] and has[1]) and (before["p"] != after["p"] or before["l"] != after["l"]):
                ck.fail_case({**sig, "clause": "interpolator cache survived a conversion", "slot": "loading" if (had[0] and has[0]) else "pressure"},
                             {"isotherm": iso_desc, "outcome": out})
            # --- back to the starting representation => original numbers
            if k == len(trace) - 1 and lab == s0["labels"]:
                if not all(close(x, y, rel=1e-10) for x, y in zip(after["p"] + after["l"], s0["p"] + s0["l"])):
                    ck.fail_case({**sig, "clause": "back to start restores the numbers"}, {"start": s0["p"] + s0["l"], "end": after["p"] + after["l"]})
            # --- correspondence of the specification of the combined call (Model/IsoSeq.lean `runUntilRefused (subSteps …)`) with the
            #     real single-quantity calls carried out on the fresh copy
            rs = seq_of.get((ci, k))
            if rs is not None and exp is not None:
                want, ref_step, ref_err, done = exp
                parts = [x.strip() for x in rs.split("|")]
                msteps = [] if parts[0] == "-" else parts[0].split(",")
                mout = parts[1].split()
                mo = "ok" if mout[0] == "ok" else ERRMAP.get(mout[1], mout[1])
                mlab = [None if x == "~" else ("" if x == '""' else x) for x in parts[2].split()]
                mp = [Fr(x) for x in parts[3].strip("[]").split(";")] if parts[3] != "[]" else []
                ml = [Fr(x) for x in parts[4].strip("[]").split(";")] if parts[4] != "[]" else []
                agree = (msteps == [s for s, _ in sub_steps(a)] and mo == (ref_err or "ok") and mlab == want["labels"] and len(mp) == len(want["p"])
                         and all(close(x, y, rel=1e-10) for x, y in zip(want["p"], mp))
                         and all(close(x, y, rel=1e-10, abs_=1e-290) for x, y in zip(want["l"], ml)))
                n_seq += 1
                if not agree:
                    n_dis_seq += 1
                    if n_dis_seq <= 3:
                        ck.broken.append({"step": "correspondence Model/IsoSeq.lean (single calls in order, stopped at the first refusal)",
                                          "what": {**sig, "single_calls_on_a_fresh_copy": [[s for s, _ in sub_steps(a)], ref_err or "ok", want["labels"], want["p"][:2], want["l"][:2]],
                                                   "model": rs[:300]}})
            # --- correspondence with the Lean model
            r = rep_of.get((ci, k))
            if r is not None:
                parts = [x.strip() for x in r.split("|")]
                mout = parts[0].split()
                mo = "ok" if mout[0] == "ok" else ERRMAP.get(mout[1], mout[1])
                mlab = [None if x == "~" else ("" if x == '""' else x) for x in parts[1].split()]
                mp = [Fr(x) for x in parts[2].strip("[]").split(";")] if parts[2] != "[]" else []
                ml = [Fr(x) for x in parts[3].strip("[]").split(";")] if parts[3] != "[]" else []
                agree = (mo == out and mlab == lab and len(mp) == len(after["p"])
                         and all(close(x, y, rel=1e-10) for x, y in zip(after["p"], mp))
                         and all(close(x, y, rel=1e-10, abs_=1e-290) for x, y in zip(after["l"], ml))
                         and close(after["t"], Fr(parts[4]), rel=1e-12)
                         and parts[5] == ("1" if has[0] else "0") + ("1" if has[1] else "0"))
                if not agree:
                    n_dis += 1
                    if n_dis <= 3:
                        ck.broken.append({"step": "correspondence Model/IsoState.lean", "what": {**sig, "implementation": [out, lab, after["p"][:2], after["l"][:2], "slots " + ("1" if has[0] else "0") + ("1" if has[1] else "0")], "model": r[:300]}})
                    break       # the model state has diverged for the rest of this history
    t_al = time.time()
    alias_family(ck, pg, worlds, all_states)
    ck.cov["seconds_aliasing_family"] = round(time.time() - t_al, 1)
    ck.cov["seconds"] = {"implementation_and_queries": round(t_impl - t_start, 1), "lean_driver": round(t_drv - t_impl, 1), "oracles_and_comparison": round(time.time() - t_drv, 1)}
    ck.cov["single_step_cases"] = n_single
    ck.cov["histories"] = n_hist_end - n_single
    ck.cov["combined_call_cases"] = len(cases) - n_hist_end
    ck.cov["correspondence_disagreements"] = n_dis
    ck.cov["correspondence_disagreements_combined_call_specification"] = n_dis_seq
    ck.cov["combined_call_specification_compared"] = n_seq
    ck.cov["rule"] = ("(a) single steps: sampled label states (of the 10x27x19x2 = 10 260) x every argument class {absent, '', valid tokens, unknown, foreign-table} of "
                      "convert_pressure / convert_loading / convert_material / convert_temperature; (b) seeded histories of 1-25 calls incl. convert() with any subset of "
                      "arguments, valid-mostly and malformed streams, stub / N2 / property-less adsorbates, 1-12 rows with both branches and two extra columns; "
                      "(c) combined convert() calls with an impossible argument at the pressure, material or loading position (unknown / foreign-family basis, omitted / foreign / unknown unit, "
                      "property the adsorbate or material lacks) next to valid changes, repeats and absent arguments elsewhere, compared with the single calls on a fresh copy; "
                      "(d) aliasing of constructor arguments: two or three isotherms from ONE table (internal column layout, own column names, data_raw / data() of another "
                      "isotherm, permuted, without branch column, non-default row labels) or from one set of ndarray / Series / list arguments, one taken through a history: the caller's "
                      "objects and the other isotherms unchanged after every call, a second one converted directly equals the first; "
                      "around every call loading_at / pressure_at / spreading_pressure_at at a measured point on a seeded branch; "
                      "non-trivial = accepted call that changed labels or data; distinct = distinct (call, start labels, arguments)")
    ck.assumptions += ["pandas column assignment semantics", "CoolProp values enter as the constants returned by the real accessors"]
