"""C02 — permanent conversions over any history.

Lean: Props/C02.lean (single-step specifications, refusals leave the state unchanged, invariant over histories).
Tie: correspondence of Model/IsoState.lean (ℚ) with PointIsotherm.convert* / convert_temperature on real
objects: single steps from sampled (thorough: all) label states with every argument class, and seeded
histories; after every call labels, both columns, temperature and the outcome class are compared.
Failing-input search: the invariant itself, evaluated on the real object with the independent SI tables
of c01.py: data = original x scale(original)/scale(current), labels accepted by the constructor, refused
call changes nothing, untouched columns/branch/metadata/order, caches reset.
"""
import itertools
from fractions import Fraction as Fr

import c01
from pgv.core import close, err_class, frac, import_pygaps, qstr, tok

ERRMAP = {"param": "param", "calc": "calc", "key": "other:KeyError", "type": "other:TypeError"}


class World:
    """One adsorbate/material/temperature with exact constants, shared by model and implementation."""

    def __init__(self, pg, name, ads_name, mat_name, temp):
        self.pg, self.name = pg, name
        self.ads = pg.Adsorbate.find(ads_name)
        self.mat = pg.Material.find(mat_name)
        self.temp = temp
        self.props = c01.Props(name, self.ads, self.mat, temp, pg)

    def ctx_line(self):
        return " ".join(["ctx", tok(self.props.psat)] + self.props.env_tokens() + ["T" if self.temp else "F"])


def labels_of(iso):
    return [iso.pressure_mode, iso.pressure_unit, iso.loading_basis, iso.loading_unit, iso.material_basis, iso.material_unit,
            iso.temperature_unit]


def snapshot(iso):
    d = iso.data_raw
    return {"labels": labels_of(iso), "p": [float(x) for x in d[iso.pressure_key]], "l": [float(x) for x in d[iso.loading_key]],
            "t": float(iso._temperature), "branch": list(d["branch"]), "extra": {c: list(d[c]) for c in iso.other_keys},
            "index": list(d.index), "props": dict(iso.properties), "mat": str(iso.material), "ads": str(iso.adsorbate)}


def make_iso(pg, w, lab, ps, ls, tval, branch=None):
    import pandas as pd
    n = len(ps)
    data = pd.DataFrame({"pressure": ps, "loading": ls, "enthalpy": [5.0 + i for i in range(n)], "tag": [f"r{i}" for i in range(n)]})
    br = branch if branch is not None else [0] * (n - n // 3) + [1] * (n // 3)
    return pg.PointIsotherm(isotherm_data=data, pressure_key="pressure", loading_key="loading",
                            branch=br, material=w.mat.name, adsorbate=w.ads.name, temperature=tval,
                            pressure_mode=lab[0], pressure_unit=lab[1], loading_basis=lab[2], loading_unit=lab[3],
                            material_basis=lab[4], material_unit=lab[5], temperature_unit=lab[6], note="kept", n=3)


def canon(w, lab, p, l):
    """SI content of one row under the labels (independent oracle): (Pa, mol adsorbate per gram material)."""
    P = w.props
    cp = frac(p) * P.scale_p(lab[0], lab[1])
    cl = frac(l) * P.scale_l(lab[2], lab[3], lab[4], lab[5]) / P.grams(lab[4], lab[5])
    return cp, cl


def tempK(lab, t):
    return frac(t) + (Fr(27315, 100) if lab[6] != "K" else 0)


def constructor_accepts(pg, iso):
    """Would the constructor accept the isotherm's own description (`to_dict()`)?"""
    from pygaps.core.baseisotherm import BaseIsotherm
    from pygaps.utilities.exceptions import ParameterError
    d = iso.to_dict()
    try:
        BaseIsotherm(**d)
        return True
    except ParameterError:
        return False


ARG_UNITS = {"pressure": list(c01.PA), "molar": list(c01.MOL), "mass": list(c01.GRAM), "volume": list(c01.CM3)}


def gen_op(rng, lab, malformed):
    """One call: (kind, args tuple).  Valid-mostly; `malformed` raises the share of absent/empty/unknown/foreign tokens."""
    def pick(valid, cur):
        r = rng.random()
        if r < (0.35 if malformed else 0.08):
            return rng.choice([None, "", "bogus", "g", "bar", "mol", "cm3", cur])
        return rng.choice(valid)
    k = rng.random()
    if k < 0.25:
        m = pick(["absolute", "relative", "relative%"], lab[0])
        u = pick(list(c01.PA), lab[1])
        return ("P", (m, u))
    if k < 0.5:
        b = pick(["molar", "mass", "volume_gas", "volume_liquid", "fraction", "percent"], lab[2])
        tab = c01.LTABLE.get(b if b in c01.LTABLE else "molar")
        u = pick(list(tab), lab[3])
        return ("L", (b, u))
    if k < 0.72:
        b = pick(["mass", "volume", "molar"], lab[4])
        tab = c01.MTABLE.get(b if b in c01.MTABLE else "mass")
        u = pick(list(tab), lab[5])
        return ("M", (b, u))
    if k < 0.8:
        return ("T", (pick(["K", "°C", "C", "celsius"], lab[6]),))
    # combined call
    args = []
    for kind in ("pm", "pu", "lb", "lu", "mb", "mu"):
        if rng.random() < 0.5:
            args.append(None)
        elif kind == "pm":
            args.append(pick(["absolute", "relative", "relative%"], lab[0]))
        elif kind == "pu":
            args.append(pick(list(c01.PA), lab[1]))
        elif kind == "lb":
            args.append(pick(["molar", "mass", "volume_gas", "volume_liquid", "fraction", "percent"], lab[2]))
        elif kind == "lu":
            args.append(pick(list(c01.MOL) + list(c01.GRAM) + list(c01.CM3), lab[3]))
        elif kind == "mb":
            args.append(pick(["mass", "volume", "molar"], lab[4]))
        else:
            args.append(pick(list(c01.GRAM) + list(c01.CM3) + list(c01.MOL), lab[5]))
    return ("A", tuple(args))


def apply_op(iso, kind, a):
    if kind == "P":
        iso.convert_pressure(mode_to=a[0], unit_to=a[1])
    elif kind == "L":
        iso.convert_loading(basis_to=a[0], unit_to=a[1])
    elif kind == "M":
        iso.convert_material(basis_to=a[0], unit_to=a[1])
    elif kind == "T":
        iso.convert_temperature(unit_to=a[0])
    else:
        iso.convert(pressure_mode=a[0], pressure_unit=a[1], loading_basis=a[2], loading_unit=a[3], material_basis=a[4], material_unit=a[5])


def single_step_args(lab):
    """Every argument class for the three single-quantity conversions from this label state."""
    ops = []
    for m in [None, "", "absolute", "relative", "relative%", "bogus"]:
        for u in [None, "", "bogus", "g"] + list(c01.PA):
            ops.append(("P", (m, u)))
    for b in [None, "", "molar", "mass", "volume_gas", "volume_liquid", "fraction", "percent", "bogus"]:
        units = [None, "", "bogus", "bar"] + (list(c01.LTABLE[b]) if b in c01.LTABLE else ["mmol", "g"])
        for u in units:
            ops.append(("L", (b, u)))
    for b in [None, "", "mass", "volume", "molar", "fraction", "bogus"]:
        units = [None, "", "bogus", "bar"] + (list(c01.MTABLE[b]) if b in c01.MTABLE else ["g", "cm3"])
        for u in units:
            ops.append(("M", (b, u)))
    for u in [None, "", "K", "°C", "C", "celsius", "F"]:
        ops.append(("T", (u,)))
    return ops


def run(ck):
    pg = import_pygaps()
    rng = ck.rng
    thorough = ck.tier == "thorough"
    # exact-constant stub adsorbate / material (stored so that isotherms can be built by name)
    pg.Adsorbate("pgv_stub", store=True, molar_mass=28.5, saturation_pressure=123456.0, liquid_density=0.81, gas_density=0.0047,
                 liquid_molar_density=0.81 / 28.5, gas_molar_density=0.0047 / 28.5)
    pg.Adsorbate("pgv_nodens", store=True, molar_mass=30.0, saturation_pressure=5e4)
    pg.Material("pgv_mat", store=True, density=2.3, molar_mass=321.0)
    worlds = [World(pg, "stub", "pgv_stub", "pgv_mat", 77.0), World(pg, "N2", "N2", "pgv_mat", 77.355)]
    w_nodens = World(pg, "nodens", "pgv_nodens", "pgv_mat", 77.0)

    PSTATES = [("absolute", u) for u in c01.PA] + [("relative", None), ("relative%", None)]
    LSTATES = [(b, u) for b in ("molar", "mass", "volume_gas", "volume_liquid") for u in c01.LTABLE[b]] + [("fraction", None), ("percent", None)]
    MSTATES = [(b, u) for b in ("mass", "volume", "molar") for u in c01.MTABLE[b]]
    TSTATES = ["K", "°C"]

    cases = []      # (world, start labels, data, tval, [ops])
    # --- (a) single steps
    all_states = list(itertools.product(PSTATES, LSTATES, MSTATES, TSTATES))
    nstates = len(all_states) if False else (ck.n(8, 60))
    for st in rng.sample(all_states, nstates):
        lab = [st[0][0], st[0][1], st[1][0], st[1][1], st[2][0], st[2][1], st[3]]
        w = rng.choice(worlds)
        ps = [0.11, 0.52, 0.93] if lab[0] != "absolute" else [1.5, 22.0, 310.0]
        ls = [0.25, 1.5, 2.75]
        for op in single_step_args(lab):
            cases.append((w, lab, ps, ls, w.temp if lab[6] == "K" else w.temp - 273.15, [op]))
    n_single = len(cases)
    # --- (b) histories
    nh = ck.n(60, 400)
    for i in range(nh):
        st = rng.choice(all_states)
        lab = [st[0][0], st[0][1], st[1][0], st[1][1], st[2][0], st[2][1], st[3]]
        w = worlds[0] if rng.random() < 0.6 else (w_nodens if rng.random() < 0.25 else worlds[1])
        n = rng.randint(1, 12)
        ps = sorted(rng.uniform(0.01, 0.99) for _ in range(n))
        ls = [rng.uniform(0.0, 5.0) for _ in range(n)]
        malformed = rng.random() < 0.3
        ops, cur = [], list(lab)
        for _ in range(rng.randint(1, ck.n(12, 25))):
            ops.append(gen_op(rng, cur, malformed))
        # back to the start at the end of some histories
        if rng.random() < 0.4:
            ops.append(("A", (lab[0], lab[1], lab[2], lab[3], lab[4], lab[5])))
            ops.append(("T", (lab[6],)))
        cases.append((w, lab, ps, ls, w.temp if lab[6] == "K" else w.temp - 273.15, ops))

    # ------------------------------------------------------------------ run the implementation, collect model requests
    lines, plan = [], []
    impl = []
    for ci, (w, lab, ps, ls, tval, ops) in enumerate(cases):
        try:
            iso = make_iso(pg, w, lab, ps, ls, tval)
        except Exception as e:  # noqa
            continue
        lines.append(w.ctx_line())
        lines.append(" ".join(["init"] + [tok(x) for x in lab] + [tok([frac(x) for x in ps]), tok([frac(x) for x in ls]), qstr(tval)]))
        plan.append(("init", ci, None))
        plan.append(("init2", ci, None))
        s0 = snapshot(iso)
        trace = []
        for kind, a in ops:
            before = snapshot(iso)
            # fill the interpolator caches so that a dropped reset is observable
            probe = None
            try:
                probe = float(iso.loading_at(before["p"][0], branch=None if len(set(before["branch"])) > 1 else "ads")) if len(before["p"]) > 1 else None
            except Exception:
                probe = None
            had_cache = iso.l_interpolator is not None
            try:
                apply_op(iso, kind, a)
                out = "ok"
            except Exception as e:  # noqa
                out = err_class(e)
            after = snapshot(iso)
            trace.append((kind, a, before, out, after, had_cache, iso.l_interpolator is not None))
            if had_cache:
                lines.append("cache")
                plan.append(("cache", ci, None))
            lines.append(" ".join([kind] + [tok(x) for x in a]))
            plan.append(("op", ci, len(trace) - 1))
        impl.append((ci, w, s0, trace, iso))
    try:
        replies = ck.drive("IsoState", lines)
    except Exception as e:
        replies = None
        ck.broken.append({"step": "driver IsoState", "what": str(e)[:600]})
    rep_of = {}
    if replies:
        for (tag, ci, k), r in zip(plan, replies):
            if tag == "op":
                rep_of[(ci, k)] = r

    # ------------------------------------------------------------------ compare + invariant oracle
    n_dis = 0
    for ci, w, s0, trace, iso in impl:
        single = ci < n_single
        P = w.props
        complete = all(P.q[k] is not None for k in P.q)
        c0 = [canon(w, s0["labels"], p, l) for p, l in zip(s0["p"], s0["l"])] if complete else None
        k0 = tempK(s0["labels"], s0["t"])
        for k, (kind, a, before, out, after, had_cache, has_cache) in enumerate(trace):
            changed_repr = before["labels"] != after["labels"]
            ck.count((kind, tuple(before["labels"]), a), nontrivial=(out == "ok" and (changed_repr or before["p"] != after["p"] or before["l"] != after["l"])),
                     bucket=("single:" if single else "history:") + kind + ":" + out,
                     sample={"start": before["labels"], "op": [kind, list(a)], "outcome": out, "labels_after": after["labels"],
                             "model": rep_of.get((ci, k), "")[:160]} if (ci * 31 + k) % 977 == 0 else None)
            sig = {"op": kind, "args": [str(x) for x in a], "from": [str(x) for x in before["labels"]]}
            # --- oracle 1: structure never touched
            for f in ("branch", "extra", "index", "props", "mat", "ads"):
                if before[f] != after[f]:
                    ck.fail_case({**sig, "clause": "untouched:" + f}, {"before": str(before[f])[:200], "after": str(after[f])[:200]})
            # --- oracle 1b: a conversion to a valid representation, with every property it needs available, is not refused
            if out != "ok" and complete and kind in ("P", "L", "M"):
                if kind == "P":
                    ok_args = len(a) == 2 and ((a[0] == "absolute" and a[1] in c01.PA) or (a[0] in ("relative", "relative%") and a[1] is None))
                elif kind == "L":
                    ok_args = len(a) == 2 and ((a[0] in c01.LTABLE and a[1] in c01.LTABLE[a[0]]) or (a[0] in ("fraction", "percent") and a[1] is None))
                else:
                    ok_args = len(a) == 2 and a[0] in c01.MTABLE and a[1] in c01.MTABLE[a[0]]
                if ok_args:
                    ck.fail_case({**sig, "clause": "conversion to a valid representation refused", "outcome": out}, {"labels": [str(x) for x in before["labels"]]})
            # --- oracle 2: refused single-quantity call changes nothing
            if out != "ok" and kind != "A":
                if before != after:
                    ck.fail_case({**sig, "clause": "refused call changed the isotherm", "outcome": out},
                                 {"before": {x: before[x] for x in ("labels", "p", "l", "t")}, "after": {x: after[x] for x in ("labels", "p", "l", "t")}})
            # --- oracle 3: labels valid and data = original converted directly (SI tables)
            lab = after["labels"]
            valid = (lab[0] in ("absolute", "relative", "relative%") and (lab[0] != "absolute" or lab[1] in c01.PA)
                     and lab[2] in ("molar", "mass", "volume_gas", "volume_liquid", "fraction", "percent") and lab[4] in c01.MTABLE
                     and (lab[2] in ("fraction", "percent") or (lab[3] in c01.LTABLE[lab[2]] and lab[5] in c01.MTABLE[lab[4]]))
                     and lab[6] in ("K", "°C"))
            if not valid:
                ck.fail_case({**sig, "clause": "labels no constructor accepts", "labels_after": [str(x) for x in lab]}, {"outcome": out})
                break
            # the labels name exactly that representation: the constructor stores no pressure unit for the relative modes
            if lab[0] != "absolute" and lab[1] is not None:
                ck.fail_case({**sig, "clause": "labels are not those the constructor stores for this representation", "label": "pressure_unit"},
                             {"labels_after": [str(x) for x in lab], "outcome": out})
                break
            if k == len(trace) - 1 and not constructor_accepts(w.pg, iso):
                ck.fail_case({**sig, "clause": "constructor rejects to_dict()"}, {"labels": [str(x) for x in lab]})
            if c0 is not None and lab[2] not in ("fraction", "percent") or (c0 is not None and lab[5] in c01.MTABLE.get(lab[4], {})):
                try:
                    cn = [canon(w, lab, p, l) for p, l in zip(after["p"], after["l"])]
                except Exception:
                    cn = None
                if cn is not None:
                    bad = [i for i, (x, y) in enumerate(zip(c0, cn)) if not (close(x[0], y[0], rel=1e-10) and close(x[1], y[1], rel=1e-10, abs_=1e-290))]
                    if bad:
                        i = bad[0]
                        ck.fail_case({**sig, "clause": "data = original converted directly"},
                                     {"row": i, "original": [s0["labels"], s0["p"][i], s0["l"][i]], "now": [lab, after["p"][i], after["l"][i]],
                                      "SI_original": [float(c0[i][0]), float(c0[i][1])], "SI_now": [float(cn[i][0]), float(cn[i][1])]})
                        break
            if not close(tempK(lab, after["t"]), k0, rel=1e-12):
                ck.fail_case({**sig, "clause": "temperature conserved"}, {"K_before": float(k0), "K_after": float(tempK(lab, after["t"]))})
            # --- oracle 4: a successful conversion that changed data drops the interpolators
            if out == "ok" and had_cache and has_cache and (before["p"] != after["p"] or before["l"] != after["l"]):
                ck.fail_case({**sig, "clause": "interpolator cache survived a conversion"}, {})
            # --- back to the starting representation => original numbers
            if k == len(trace) - 1 and lab == s0["labels"]:
                if not all(close(x, y, rel=1e-10) for x, y in zip(after["p"] + after["l"], s0["p"] + s0["l"])):
                    ck.fail_case({**sig, "clause": "back to start restores the numbers"}, {"start": s0["p"] + s0["l"], "end": after["p"] + after["l"]})
            # --- correspondence with the Lean model
            r = rep_of.get((ci, k))
            if r is not None:
                parts = [x.strip() for x in r.split("|")]
                mout = parts[0].split()
                mo = "ok" if mout[0] == "ok" else ERRMAP.get(mout[1], mout[1])
                mlab = [None if x == "~" else ("" if x == '""' else x) for x in parts[1].split()]
                mp = [Fr(x) for x in parts[2].strip("[]").split(";")] if parts[2] != "[]" else []
                ml = [Fr(x) for x in parts[3].strip("[]").split(";")] if parts[3] != "[]" else []
                agree = (mo == out and mlab == lab and len(mp) == len(after["p"])
                         and all(close(x, y, rel=1e-10) for x, y in zip(after["p"], mp))
                         and all(close(x, y, rel=1e-10, abs_=1e-290) for x, y in zip(after["l"], ml))
                         and close(after["t"], Fr(parts[4]), rel=1e-12))
                if not agree:
                    n_dis += 1
                    if n_dis <= 3:
                        ck.broken.append({"step": "correspondence Model/IsoState.lean", "what": {**sig, "implementation": [out, lab, after["p"][:2], after["l"][:2]], "model": r[:300]}})
                    break       # the model state has diverged for the rest of this history
    ck.cov["single_step_cases"] = n_single
    ck.cov["histories"] = len(cases) - n_single
    ck.cov["correspondence_disagreements"] = n_dis
    ck.cov["rule"] = ("(a) single steps: sampled label states (of the 10x27x19x2 = 10 260) x every argument class {absent, '', valid tokens, unknown, foreign-table} of "
                      "convert_pressure / convert_loading / convert_material / convert_temperature; (b) seeded histories of 1-25 calls incl. convert() with any subset of "
                      "arguments, valid-mostly and malformed streams, stub / N2 / property-less adsorbates, 1-12 rows with both branches and two extra columns; "
                      "non-trivial = accepted call that changed labels or data; distinct = distinct (call, start labels, arguments)")
    ck.assumptions += ["pandas column assignment semantics", "CoolProp values enter as the constants returned by the real accessors"]
