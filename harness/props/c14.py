"""C14 — linearised characterisation methods recover the generating parameters.

Lean: Props/C14.lean over Gen/CharR.lean (per-point transforms and parameter formulas regenerated from the source on every run)
and Model/Linear.lean (window selection and least squares): exact recovery theorems for BET, Langmuir, t-plot, alpha-s and
DR/DA, exact characterisation of the selected window, the three-point refusal and the Rouquerol rule.
Tie: (1) translator validation — the Float copies of the generated formulas against the real functions; (2) correspondence of
Model/Linear.lean at ℚ with the real raw functions (windows, refusals, regression).  Failing-input search: synthetic isotherms
from the governing equations (written here independently) through the raw and the isotherm entry points; the isotherm entry points on
isotherms stored in every loading / material / pressure / temperature representation, alpha-s with a reference OBJECT of its own in an
independent representation (section 4); 1- and 2-point tables through every BET / Langmuir / Dubinin entry point with and without limits
(section 5; Lean: `short_table_refused`).
"""
import math
from fractions import Fraction

from pgv.charlib import optq, q, qlist, quiet_logging, tv_run
from pgv.core import import_pygaps
from pgv.models import logu, relerr

R = 6.02214076e23 * 1.380649e-23      # exact SI value (N_A k_B)
NA = 6.02214076e23


def grid(rng, n=None, lo=1e-3, hi=0.95):
    n = n or rng.choice([5, 6, 8, 12, 20, 40, 100])
    style = rng.random() if n > 1 else 0.0
    if style < 0.5:
        ps = sorted({rng.uniform(lo, hi) for _ in range(n)})
    elif style < 0.8:
        a, b = sorted((rng.uniform(lo, hi * 0.4), rng.uniform(hi * 0.5, hi)))
        ps = [a + (b - a) * i / (n - 1) for i in range(n)]
    else:
        a = logu(rng, lo, 0.01)
        ps = sorted({a * (hi / a) ** (i / (n - 1)) for i in range(n)})
    return ps


def limits(rng, ps, allow_none=True):
    def one(k):
        r = rng.random()
        if r < 0.12:
            return None
        if r < 0.17:
            return 0
        if r < 0.32:
            return rng.choice(ps)          # exactly a data point
        if r < 0.37:
            return ps[0] * 0.5 if k == 0 else ps[-1] * 1.5
        return rng.uniform(ps[0] * 0.5, min(ps[-1] * 1.2, 0.999))
    if allow_none and rng.random() < 0.25:
        return None
    return (one(0), one(1))


def window_oracle(ps, lo, hi):
    """(must be included, may be included): indices strictly inside / inside or on the boundary of the given limits."""
    lo_v = lo if lo else None
    hi_v = hi if hi else None
    strict = [i for i, p in enumerate(ps) if (lo_v is None or p > lo_v) and (hi_v is None or p < hi_v)]
    loose = [i for i, p in enumerate(ps) if (lo_v is None or p >= lo_v) and (hi_v is None or p <= hi_v)]
    return strict, loose


def run(ck):
    pg = import_pygaps()
    import numpy as np
    from pygaps.characterisation import alphas_plots as al
    from pygaps.characterisation import area_bet as ab
    from pygaps.characterisation import area_lang as la
    from pygaps.characterisation import dr_da_plots as da
    from pygaps.characterisation import models_thickness as mt
    from pygaps.characterisation import t_plots as tp
    from pygaps.utilities.exceptions import CalculationError, ParameterError
    import pygaps.characterisation as pgc
    quiet_logging()
    rng = ck.rng
    thorough = ck.tier == "thorough"
    N = ck.n(60, 400)
    np.seterr(all="ignore")

    # ------------------------------------------------------------------ 1. translator validation
    cases = []
    for _ in range(ck.n(12, 40)):
        p, n = rng.uniform(0.001, 0.95), logu(rng, 1e-5, 1e2)
        cases.append(("roq_transform", {"pressure": p, "loading": n}, ab.roq_transform(p, n)))
        cases.append(("bet_transform", {"pressure": p, "loading": n}, ab.bet_transform(p, n)))
        nm, c = logu(rng, 1e-4, 1e-1), logu(rng, 2, 2000)
        cases.append(("simple_bet", {"pressure": p, "n_monolayer": nm, "c_const": c}, ab.simple_bet(p, nm, c)))
        slope, icpt, cs = logu(rng, 1, 1e4), logu(rng, 1e-3, 1e2), rng.uniform(0.1, 0.5)
        n_mono, p_mono, c_const, area = ab.bet_parameters(slope, icpt, cs)
        cases += [("bet_c_const", {"slope": slope, "intercept": icpt}, c_const),
                  ("bet_n_monolayer", {"intercept": icpt, "c_const": c_const, "slope": slope}, n_mono),
                  ("bet_p_monolayer", {"c_const": c_const}, p_mono),
                  ("bet_area", {"n_monolayer": n_mono, "cross_section": cs}, area)]
        cases.append(("langmuir_transform", {"pressure": p, "loading": n}, la.langmuir_transform(p, n)))
        k = logu(rng, 0.5, 500)
        cases.append(("simple_lang", {"pressure": p, "n_total": nm, "k_const": k}, la.simple_lang(p, nm, k)))
        n_mono, k_c, area = la.langmuir_parameters(slope, icpt, cs)
        cases += [("lang_n_monolayer", {"slope": slope}, n_mono),
                  ("lang_const", {"intercept": icpt, "n_monolayer": n_mono, "slope": slope}, k_c),
                  ("lang_area", {"n_monolayer": n_mono, "cross_section": cs}, area)]
        M, rho = rng.uniform(2, 150), rng.uniform(0.3, 2.0)
        ts = np.array(sorted(rng.uniform(0.2, 2) for _ in range(6)))
        s_, i_ = logu(rng, 0.1, 50), rng.uniform(0, 5)
        ld = s_ * ts + i_ + np.array([rng.uniform(-1e-3, 1e-3) for _ in ts])
        r = tp.t_plot_parameters(ts, ld, np.arange(6), M, rho)
        if r:
            cases += [("tplot_adsorbed_volume", {"intercept": r["intercept"], "molar_mass": M, "liquid_density": rho}, r["adsorbed_volume"]),
                      ("tplot_area", {"slope": r["slope"], "molar_mass": M, "liquid_density": rho}, r["area"])]
        a_pt, a_ref = rng.uniform(0.5, 20), rng.uniform(1, 2000)
        r = al.alpha_s_plot_parameters(ts, ld, np.arange(6), np.float64(a_pt), np.float64(a_ref), M, rho)
        if r:
            cases += [("alphas_adsorbed_volume", {"intercept": r["intercept"], "molar_mass": M, "liquid_density": rho}, r["adsorbed_volume"]),
                      ("alphas_area", {"reference_area": a_ref, "alpha_s_point": a_pt, "slope": r["slope"]}, r["area"])]
        _, curve = al.alpha_s_raw(ld, ts, a_pt, a_ref, rho, M, t_limits=(0, 100))
        cases.append(("alphas_curve", {"reference_loading": ts[2], "alpha_s_point": a_pt}, curve[2]))
        ex = rng.uniform(1, 3)
        cases.append(("log_v_adj", {"loading": n, "molar_mass": M, "liquid_density": rho}, da.log_v_adj(n, M, rho)))
        cases.append(("log_p_exp", {"pressure": p, "exp": ex}, da.log_p_exp(p, ex)))
        T = rng.uniform(70, 320)
        pp = np.array(grid(rng, 8, 1e-4, 0.3))
        nn = rng.uniform(0.1, 1) * rho / M * np.exp(-(R * T * (-np.log(pp)) / (1000 * rng.uniform(3, 20))) ** ex)
        r = da.da_plot_raw(pp, nn, T, M, rho, exp=ex)
        cases += [("da_microp_volume", {"intercept": r[4]}, r[0]), ("da_potential", {"iso_temp": T, "slope": r[3], "exp": ex}, r[1])]
        cases.append(("thickness_halsey", {"pressure": p}, mt.thickness_halsey(p)))
        cases.append(("thickness_harkins_jura", {"pressure": p}, mt.thickness_harkins_jura(p)))
        cases.append(("convert_to_thickness", {"loading": n, "monolayer": nm}, mt.convert_to_thickness(n, nm)))
    tv_run(ck, cases)

    # ------------------------------------------------------------------ 2. window + regression correspondence (ℚ model vs real raw functions)
    lines, plan = [], []
    for i in range(N * 2):
        kind = rng.choice(["bet", "bet", "lang", "da"])
        ps = grid(rng, rng.choice([1, 2, 3, 4, 5, 8, 20, 60]) if rng.random() < 0.4 else None)
        n = len(ps)
        if kind == "bet" and rng.random() < 0.6:
            # loading with a Rouquerol maximum somewhere (or nowhere)
            style = rng.random()
            if style < 0.3:
                ns = [rng.uniform(0.5, 2) for _ in ps]
            elif style < 0.55:
                # type-I data on a fine grid: n(1-p) has a flat maximum, the first decrease after it is tiny (and the capacity may be small)
                nm, k = (logu(rng, 1e-4, 1e-3) if rng.random() < 0.6 else logu(rng, 1e-3, 1e-1)), rng.uniform(15, 120)
                step = rng.choice([0.001, 0.0025, 0.005, 0.01])
                ps = [0.01 + step * j for j in range(int(rng.uniform(0.25, 0.5) / step))]
                n = len(ps)
                ns = [nm * k * p / (1 + k * p) for p in ps]
            else:
                nm, c = logu(rng, 1e-4, 1e-1), logu(rng, 2, 2000)
                cut = rng.uniform(0.1, 1.2)
                ns = [nm * c * p / ((1 - p) * (1 - p + c * p)) * (1.0 if p < cut else (1 - p) ** rng.uniform(0.5, 2)) for p in ps]
            lim = None if rng.random() < 0.7 else limits(rng, ps)
        else:
            nm, k = logu(rng, 1e-4, 1e-1), logu(rng, 0.5, 500)
            ns = [nm * k * p / (1 + k * p) * rng.uniform(0.95, 1.05) for p in ps]
            lim = limits(rng, ps)
        pa, na = np.array(ps), np.array(ns)
        try:
            if kind == "bet":
                r = ab.area_BET_raw(pa, na, 0.162, lim)
                got = ("ok", int(r[6]), int(r[7]), float(r[4]), float(r[5]))
            elif kind == "lang":
                r = la.area_langmuir_raw(pa, na, 0.162, lim)
                got = ("ok", int(r[5]), int(r[6]), float(r[3]), float(r[4]))
            else:
                r = da.da_plot_raw(pa, na, 77.0, 28.0, 0.8, exp=2, p_limits=lim)
                got = ("ok", int(r[5]), int(r[6]), float(r[3]), float(r[4]))
        except CalculationError:
            got = ("refused",)
        except Exception as e:  # noqa
            got = ("error", type(e).__name__, str(e)[:100])
        roq = [float(x) for x in ab.roq_transform(pa, na)]
        # near-tie guard for the two multiplied thresholds (float product vs exact product)
        tie = False
        if lim is None and kind in ("bet", "lang"):
            if kind == "bet":
                mx = next((j + 1 for j in range(n - 1) if roq[j] > roq[j + 1]), n - 1)
                th = [ps[mx] * 0.1]
            else:
                th = [ps[-1] * 0.05, ps[-1] * 0.9]
            tie = any(abs(p - t) <= 1e-12 * abs(t) for p in ps for t in th)
        if tie:
            ck.count(("win-tie", i), nontrivial=False, bucket="window:tie-skipped")
            continue
        flag = "N" if lim is None else "L"
        lo, hi = (None, None) if lim is None else lim
        lines.append(f"win {kind} {flag} {optq(lo)} {optq(hi)} {qlist(ps)} {qlist(roq)}")
        plan.append(("win", kind, ps, ns, lim, got))
        ck.count(("win", kind, n, str(lim), got[0]), bucket=f"window:{kind}:{'auto' if lim is None else 'manual'}:{got[0]}",
                 sample={"kind": kind, "n": n, "limits": lim, "result": got[:3]} if i % 97 == 0 else None)
        # ---- property oracle on the window (independent of the model)
        sig = {"method": kind, "clause": None}
        if got[0] == "error":
            ck.fail_case({**sig, "clause": "window selection raises a non-pyGAPS error", "error": got[1]}, {"pressure": ps, "loading": ns, "limits": lim, "error": got})
        elif lim is not None:
            strict, loose = window_oracle(ps, lim[0], lim[1])
            if got[0] == "refused":
                if len(strict) >= 3:
                    ck.fail_case({**sig, "clause": "refused although three or more points lie strictly inside the limits"}, {"pressure": ps, "limits": lim})
            else:
                sel = list(range(got[1], got[2] + 1))
                if len(loose) < 3:
                    ck.fail_case({**sig, "clause": "fit accepted on fewer than three points"}, {"pressure": ps, "limits": lim, "selected": sel})
                elif not (set(strict) <= set(sel) <= set(loose)):
                    ck.fail_case({**sig, "clause": "fitted region is not the set of points inside the limits"}, {"pressure": ps, "limits": lim, "selected": sel, "inside": strict})
        elif kind == "bet":
            mx = next((j + 1 for j in range(n - 1) if roq[j] > roq[j + 1]), n - 1)
            mn = next((j for j, p in enumerate(ps) if p >= ps[mx] * 0.1), n)
            if got[0] == "refused":
                if mx - mn >= 2:
                    ck.fail_case({**sig, "clause": "automatic window refused although it holds three points"}, {"pressure": ps, "loading": ns, "expected": [mn, mx]})
            elif (got[1], got[2]) != (mn, mx):
                ck.fail_case({**sig, "clause": "automatic BET window is not the Rouquerol window"}, {"pressure": ps, "loading": ns, "expected": [mn, mx], "got": got[1:3]})
            elif got[2] - got[1] + 1 < 3:
                ck.fail_case({**sig, "clause": "fit accepted on fewer than three points", "limits": "none"}, {"pressure": ps, "loading": ns, "limits": None, "selected": list(range(got[1], got[2] + 1))})
        else:
            # p_limits=None for Langmuir (documented default: 5 %..90 % of the last pressure) and Dubinin (the whole table): the same three
            # clauses as with user limits (near-ties of the two products were skipped above)
            d_lo, d_hi = (ps[-1] * 0.05, ps[-1] * 0.9) if kind == "lang" else (None, None)
            strict, loose = window_oracle(ps, d_lo, d_hi)
            if got[0] == "refused":
                if len(strict) >= 3:
                    ck.fail_case({**sig, "clause": "refused without limits although three or more points lie strictly inside the default region"}, {"pressure": ps, "limits": None, "default": [d_lo, d_hi]})
            else:
                sel = list(range(got[1], got[2] + 1))
                if len(loose) < 3:
                    ck.fail_case({**sig, "clause": "fit accepted on fewer than three points", "limits": "none"}, {"pressure": ps, "loading": ns, "limits": None, "selected": sel})
                elif not (set(strict) <= set(sel) <= set(loose)):
                    ck.fail_case({**sig, "clause": "fitted region without limits is not the default region"}, {"pressure": ps, "limits": None, "default": [d_lo, d_hi], "selected": sel, "inside": strict})
        # regression correspondence on the selected slice
        if got[0] == "ok":
            a, b = got[1], got[2] + 1
            if kind == "bet":
                xs, ys = ps[a:b], [float(v) for v in ab.bet_transform(pa[a:b], na[a:b])]
            elif kind == "lang":
                xs, ys = ps[a:b], [float(v) for v in la.langmuir_transform(pa[a:b], na[a:b])]
            else:
                xs, ys = [float(v) for v in da.log_p_exp(pa[a:b], 2)], [float(v) for v in da.log_v_adj(na[a:b], 28.0, 0.8)]
            if i % 3 == 0 and len(xs) <= 25 and all(map(math.isfinite, xs + ys)):
                lines.append(f"ols {qlist(xs)} {qlist(ys)}")
                plan.append(("ols", kind, xs, ys, None, got))
    # t-plot / alpha-s open sections
    for i in range(N // 2):
        ps = grid(rng)
        curve = [float(v) for v in mt.thickness_halsey(np.array(ps))]
        lo, hi = sorted((rng.choice(curve) if rng.random() < 0.3 else rng.uniform(curve[0] * 0.8, curve[-1]), rng.uniform(curve[0], curve[-1] * 1.2)))
        ld = np.array([2.0 * t + 1.0 for t in curve])
        res, _ = tp.t_plot_raw(ld, np.array(ps), mt.thickness_halsey, 0.8, 28.0, t_limits=(lo, hi))
        inside = [j for j, t in enumerate(curve) if lo < t < hi]
        if res:
            sec = [int(j) for j in res[0]["section"]]
            lines.append(f"sec {q(lo)} {q(hi)} {qlist(curve)}")
            plan.append(("sec", "tplot", curve, None, (lo, hi), sec))
            ck.count(("sec", i), bucket="window:t-plot section")
            loose = [j for j, t in enumerate(curve) if lo <= t <= hi]
            if not (set(inside) <= set(sec) <= set(loose)):
                ck.fail_case({"method": "t-plot", "clause": "fitted region is not the set of points inside the limits"}, {"curve": curve, "limits": [lo, hi], "section": sec})
    n_dis = 0
    try:
        replies = ck.drive("Char", lines) if lines else []
    except Exception as e:
        replies = None
        ck.broken.append({"step": "driver Char", "what": str(e)[:600]})
    if replies is not None:
        for (what, kind, a, b, lim, got), rep, line in zip(plan, replies, lines):
            t = rep.split()
            ck.count(("corr", what, kind), nontrivial=False, bucket="correspondence:" + what)
            if what == "win":
                ok = (t[0] == "refused" and got[0] == "refused") or (t[0] == "ok" and got[0] == "ok" and (int(t[1]), int(t[2])) == got[1:3])
                if got[0] == "error":
                    ok = True      # reported by the oracle above
            elif what == "ols":
                if t[0] != "ok":
                    ok = False
                else:
                    sl, ic = (Fraction(*map(int, x.split("/"))) for x in t[1:3])
                    scale = max(abs(float(ic)), abs(float(sl)) * max(abs(x) for x in a), 1e-300)
                    ok = abs(float(sl) - got[3]) <= 1e-7 * max(abs(got[3]), scale / max(abs(x) for x in a)) and abs(float(ic) - got[4]) <= 1e-7 * scale
            else:
                ok = t[0] == "ok" and [int(x) for x in t[1][1:-1].split(";") if x] == got
            if not ok:
                n_dis += 1
                if n_dis <= 3:
                    ck.broken.append({"step": f"correspondence Model/Linear.lean ({what} {kind})", "what": {"request": line[:400], "model": rep[:200], "implementation": str(got)[:200]}})
    ck.cov["correspondence_disagreements"] = n_dis

    # ------------------------------------------------------------------ 3. recovery oracle: raw entry points
    worst = {}

    def note(k, a, b):
        e = relerr(a, b)
        worst[k] = max(worst.get(k, 0.0), e)
        return e

    for i in range(N):
        ps = grid(rng)
        pa = np.array(ps)
        cs = rng.uniform(0.1, 0.5)
        manual = rng.random() < 0.5
        # ---------------- BET
        nm, c = logu(rng, 1e-4, 1e-1), logu(rng, 2, 2000)
        na = nm * c * pa / ((1 - pa) * (1 - pa + c * pa))
        lim = None
        if manual:
            a, b = sorted(rng.sample(range(len(ps)), 2))
            if b - a >= 3:
                lim = (ps[a] * 0.999, ps[b] * 1.001)
        ck.count(("bet", i), bucket="recover:BET:" + ("manual" if lim else "auto"), sample={"n_m": nm, "C": c, "points": len(ps), "limits": lim} if i % 50 == 0 else None)
        try:
            r = ab.area_BET_raw(pa, na, cs, lim)
            exp_area = nm * cs * 1e-18 * NA
            errs = {"n_monolayer": note("bet.n_m", r[2], nm), "c_const": note("bet.C", r[1], c), "area": note("bet.area", r[0], exp_area),
                    "p_monolayer": note("bet.p_m", r[3], 1 / (math.sqrt(c) + 1)),
                    "slope": note("bet.slope", r[4], (c - 1) / (nm * c)), "intercept": note("bet.intercept", r[5], 1 / (nm * c))}
            bad = {k: v for k, v in errs.items() if v > 1e-6}
            if bad:
                ck.fail_case({"method": "BET", "clause": "generating parameters not recovered", "quantity": sorted(bad)[0]},
                             {"n_m": nm, "C": c, "cross_section": cs, "pressure": ps, "limits": lim, "result": [float(x) for x in r], "rel_errors": bad})
        except CalculationError as e:
            inside = len(ps) if lim is None else len([p for p in ps if lim[0] < p < lim[1]])
            if lim is not None or len([p for p in ps if p >= 0.1 * ps[-1]]) >= 3:
                ck.fail_case({"method": "BET", "clause": "exact BET data refused"}, {"n_m": nm, "C": c, "pressure": ps, "limits": lim, "error": str(e)[:200], "inside": inside})
        # ---------------- Langmuir
        k = logu(rng, 0.5, 500)
        na = nm * k * pa / (1 + k * pa)
        try:
            r = la.area_langmuir_raw(pa, na, cs, lim)
            errs = {"n_monolayer": note("lang.n_m", r[2], nm), "langmuir_const": note("lang.K", r[1], k), "area": note("lang.area", r[0], nm * cs * 1e-18 * NA),
                    "slope": note("lang.slope", r[3], 1 / nm), "intercept": note("lang.intercept", r[4], 1 / (nm * k))}
            bad = {kk: v for kk, v in errs.items() if v > 1e-6}
            ck.count(("lang", i), bucket="recover:Langmuir")
            if bad:
                ck.fail_case({"method": "Langmuir", "clause": "generating parameters not recovered", "quantity": sorted(bad)[0]},
                             {"n_m": nm, "K": k, "pressure": ps, "limits": lim, "result": [float(x) for x in r], "rel_errors": bad})
        except CalculationError:
            ck.count(("lang-ref", i), nontrivial=False, bucket="recover:Langmuir refused (window)")
        # ---------------- t-plot with the built-in thickness models
        tm = rng.choice([mt.thickness_halsey, mt.thickness_harkins_jura])
        M, rho = rng.uniform(2, 150), rng.uniform(0.3, 2.0)
        tcurve = tm(pa)
        s_, i_ = logu(rng, 0.1, 50), rng.uniform(0, 5)
        ld = s_ * tcurve + i_
        tl = (float(tcurve[0]) * 0.99, float(tcurve[-1]) * 1.01)
        res, tc = tp.t_plot_raw(ld, pa, tm, rho, M, t_limits=tl)
        ck.count(("tplot", i), bucket="recover:t-plot")
        if not res:
            ck.fail_case({"method": "t-plot", "clause": "exact straight t-plot not fitted"}, {"slope": s_, "intercept": i_, "pressure": ps})
        else:
            r = res[0]
            errs = {"slope": note("tplot.slope", r["slope"], s_), "area": note("tplot.area", r["area"], s_ * M / rho)}
            if i_ > 1e-3:
                errs["intercept"] = note("tplot.intercept", r["intercept"], i_)
                errs["adsorbed_volume"] = note("tplot.volume", r["adsorbed_volume"], i_ * M / rho / 1000)
            bad = {kk: v for kk, v in errs.items() if v > 1e-6}
            if bad:
                ck.fail_case({"method": "t-plot", "clause": "generating parameters not recovered", "quantity": sorted(bad)[0]},
                             {"slope": s_, "intercept": i_, "M": M, "rho": rho, "pressure": ps, "result": {kk: float(v) for kk, v in r.items() if kk != "section"}, "rel_errors": bad})
        # ---------------- alpha-s (raw): loading linear in the reference loading
        ref = nm * 1000 * c * pa / ((1 - pa) * (1 - pa + c * pa))
        a_pt, a_ref = float(np.interp(0.4, pa, ref)) or 1.0, rng.uniform(1, 2000)
        ld = s_ * (ref / a_pt) + i_
        ref_before = ref.copy()
        res, curve = al.alpha_s_raw(ld, ref, a_pt, np.float64(a_ref), rho, M, t_limits=(float(min(ref_before / a_pt)) * 0.99, float(max(ref_before / a_pt)) * 1.01))
        ck.count(("alphas", i), bucket="recover:alpha-s raw")
        if not np.array_equal(ref, ref_before):
            ck.fail_case({"method": "alpha-s", "clause": "the caller's reference array is modified by the analysis"}, {"alpha_s_point": a_pt, "before": ref_before[:3].tolist(), "after": ref[:3].tolist()})
            ref = ref_before.copy()
        # the reference against itself (same array object as sample and as reference) returns the reference area
        own = ref.copy()
        res_self, _ = al.alpha_s_raw(own, own, a_pt, np.float64(a_ref), rho, M, t_limits=(float(min(ref / a_pt)) * 0.99, float(max(ref / a_pt)) * 1.01))
        if res_self and relerr(float(res_self[0]["area"]), a_ref) > 1e-6:
            ck.fail_case({"method": "alpha-s", "clause": "alpha-s against itself does not return the reference area", "entry": "raw arrays"},
                         {"alpha_s_point": a_pt, "reference_area": a_ref, "got": float(res_self[0]["area"])})
        if res:
            r = res[0]
            errs = {"slope": note("alphas.slope", r["slope"], s_), "area": note("alphas.area", r["area"], a_ref / a_pt * s_)}
            if i_ > 1e-3:
                errs["adsorbed_volume"] = note("alphas.volume", r["adsorbed_volume"], i_ * M / rho / 1000)
            bad = {kk: v for kk, v in errs.items() if v > 1e-6}
            if bad:
                ck.fail_case({"method": "alpha-s", "clause": "generating parameters not recovered", "quantity": sorted(bad)[0]},
                             {"slope": s_, "intercept": i_, "alpha_s_point": a_pt, "reference_area": a_ref, "rel_errors": bad})
        elif s_ * (max(ref / a_pt) / max(ld)) < 2.9:
            ck.fail_case({"method": "alpha-s", "clause": "exact straight alpha-s plot not fitted"}, {"slope": s_, "intercept": i_})
        # ---------------- Dubinin-Astakhov / Radushkevich
        T, V0, E, ex = rng.uniform(70, 320), rng.uniform(0.05, 1.5), rng.uniform(3, 25), rng.uniform(1, 3)
        pd_ = np.array(grid(rng, None, 1e-5, 0.4))
        nd = V0 * rho / M * np.exp(-(R * T * (-np.log(pd_)) / (1000 * E)) ** ex)
        ck.count(("da", i), bucket="recover:DA")
        try:
            r = da.da_plot_raw(pd_, nd, T, M, rho, exp=ex)
            errs = {"pore_volume": note("da.V0", r[0], V0), "potential": note("da.E", r[1], E)}
            bad = {kk: v for kk, v in errs.items() if v > 1e-6}
            if bad:
                ck.fail_case({"method": "DA", "clause": "generating parameters not recovered", "quantity": sorted(bad)[0]},
                             {"V0": V0, "E": E, "exp": ex, "T": T, "M": M, "rho": rho, "pressure": pd_.tolist(), "rel_errors": bad})
            if i % 4 == 0 and len(pd_) >= 8:
                r = da.da_plot_raw(pd_, nd, T, M, rho, exp=None)
                errs = {"exponent": note("da.exp(fit)", r[2], ex), "pore_volume": note("da.V0(fit)", r[0], V0), "potential": note("da.E(fit)", r[1], E)}
                bad = {kk: v for kk, v in errs.items() if v > 2e-3}
                if bad:
                    ck.fail_case({"method": "DA", "clause": "exponent search does not recover the generating exponent", "ends_at_upper_bound": bool(r[2] > 2.999) and ex < 2.9},
                                 {"V0": V0, "E": E, "exp": ex, "T": T, "pressure": pd_.tolist(), "result": [float(x) for x in r[:3]], "rel_errors": bad})
        except CalculationError as e:
            ck.fail_case({"method": "DA", "clause": "exact DA data refused"}, {"V0": V0, "E": E, "exp": ex, "error": str(e)[:200]})

    # ------------------------------------------------------------------ 4. isotherm entry points
    reported = {}

    def fail_few(sig, detail, keep=3):
        """at most `keep` replays per signature (a defect in an entry point fails on every iteration)"""
        key = repr(sorted(sig.items()))
        reported[key] = reported.get(key, 0) + 1
        if reported[key] <= keep:
            ck.fail_case(sig, detail)
    from pygaps.core.adsorbate import Adsorbate
    ads = Adsorbate.find("N2")
    T = 77.355
    M, rho, cs = ads.molar_mass(), ads.liquid_density(T), ads.get_prop("cross_sectional_area")
    # stored representations of the isotherm handed to the entry points (all describe the same physical data; measured on the unchanged tree:
    # every routine reproduces the generating parameters to 1e-9 in each of them).  Loading: every basis with several units, material: mass
    # units (the synthetic material has no molar mass / density; results are per material unit: factor `f`), pressure: relative, relative%,
    # absolute in six units, temperature K / °C.
    L_REPS = ([("molar", u) for u in ("mmol", "mol", "kmol", "cm3(STP)", "mL(STP)", "L(STP)")] + [("mass", u) for u in ("mg", "g", "kg", "cg")]
              + [("volume_gas", u) for u in ("cm3", "L", "m3")] + [("volume_liquid", u) for u in ("cm3", "mL", "dm3")] + [("percent", None), ("fraction", None)])
    P_REPS = [("relative", None), ("relative%", None)] + [("absolute", u) for u in ("Pa", "kPa", "bar", "torr", "atm", "mbar")]
    M_REPS = [("g", 1.0), ("kg", 1e-3), ("mg", 1e3)]
    PLAIN = {"loading": ("molar", "mmol"), "pressure": ("relative", None), "material": ("g", 1.0), "temperature": "K"}
    n_entry = max(ck.n(24, 72), N // 6)

    def cycle(reps):
        """every member in turn, in a random order (stratified: all loading representations are visited within one run)"""
        while True:
            order = list(reps)
            rng.shuffle(order)
            yield from order
    smp_cycle, ref_cycle = cycle(L_REPS), cycle(L_REPS)

    def stored(isotherm, rep):
        """the same isotherm stored in another representation (conversion through the public convert_* methods)"""
        if rep["material"][0] != "g":
            isotherm.convert_material(basis_to="mass", unit_to=rep["material"][0])
        if rep["loading"] != ("molar", "mmol"):
            isotherm.convert_loading(basis_to=rep["loading"][0], unit_to=rep["loading"][1])
        if rep["pressure"] != ("relative", None):
            isotherm.convert_pressure(mode_to=rep["pressure"][0], unit_to=rep["pressure"][1])
        if rep["temperature"] != "K":
            isotherm.convert_temperature(unit_to=rep["temperature"])
        return isotherm

    def rep_label(rep):
        return {"loading": "/".join(str(x) for x in rep["loading"]), "pressure": "/".join(str(x) for x in rep["pressure"]), "material": rep["material"][0], "temperature": rep["temperature"]}

    for i in range(n_entry):
        ps = grid(rng, rng.choice([12, 20, 40, 100]), 1e-3, 0.9)
        pa = np.array(ps)
        nm, c, k = logu(rng, 1e-4, 1e-1), logu(rng, 2, 2000), logu(rng, 0.5, 500)
        # one iteration in three in the library's default representation, the others anywhere; the loading representation cycles through all
        if i % 3 == 0:
            rep = dict(PLAIN)
        else:
            rep = {"loading": next(smp_cycle), "pressure": rng.choice(P_REPS), "material": rng.choice(M_REPS), "temperature": rng.choice(["K", "°C"])}
        f = rep["material"][1]
        rl = rep_label(rep)

        def iso(load_mol, rep=rep, pressure=None):
            return stored(pg.PointIsotherm(pressure=pa if pressure is None else pressure, loading=np.asarray(load_mol) * 1000, material="pgv-synth", adsorbate="N2", temperature=T,
                                           pressure_mode="relative", pressure_unit=None, loading_basis="molar", loading_unit="mmol",
                                           material_basis="mass", material_unit="g", temperature_unit="K"), rep)
        ck.count(("iso-entry", i), bucket="recover:isotherm entry points:" + ("default representation" if rep == PLAIN else "other stored representation"),
                 sample={"n_m": nm, "C": c, "K": k, "points": len(ps), "stored": rl} if i in (0, 1) else None)
        bet_mol = nm * c * pa / ((1 - pa) * (1 - pa + c * pa))
        bet_iso = iso(bet_mol)
        area_g = nm * cs * 1e-18 * NA          # m2 per gram; results are per stored material unit: times f
        try:
            r = pgc.area_BET(bet_iso)
            errs = {"n_monolayer": note("iso.bet.n_m", r["n_monolayer"] * f, nm), "c_const": note("iso.bet.C", r["c_const"], c),
                    "area": note("iso.bet.area", r["area"] * f, area_g)}
            bad = {kk: v for kk, v in errs.items() if v > 1e-6}
            if bad:
                fail_few({"method": "area_BET", "clause": "generating parameters not recovered", "quantity": sorted(bad)[0], "stored": "default" if rep == PLAIN else "other"},
                             {"n_m": nm, "C": c, "pressure": ps, "stored": rl, "rel_errors": bad})
        except CalculationError as e:
            r = None
            fail_few({"method": "area_BET", "clause": "exact BET data refused"}, {"n_m": nm, "C": c, "stored": rl, "error": str(e)[:200]})
        # ---------------- alpha-s: the reference is an isotherm object of its own, stored in ITS OWN representation (loading basis / unit and
        # temperature unit independent of the sample's; same material unit: areas are per material unit).  Known finding S15a (C15) keeps the
        # reference in relative pressure and the sample in relative / relative% pressure.
        # TODO(S15a): absolute pressure representations of sample / reference once alpha_s reads the reference at relative pressures.
        s_, i_ = logu(rng, 0.1, 50), rng.uniform(0.01, 5)
        if ps[0] < 0.4 < ps[-1]:
            smp_rep = {**rep, "pressure": rep["pressure"] if rep["pressure"][0] != "absolute" else ("relative", None)}
            ref_rep = {"loading": ("molar", "mmol") if rep == PLAIN and i % 2 == 0 else next(ref_cycle), "pressure": ("relative", None), "material": rep["material"],
                       "temperature": "K" if rep == PLAIN else rng.choice(["K", "°C"])}
            # the reference is measured on a slightly wider grid containing the sample's pressures: a sample pressure that went through relative%
            # comes back one ulp off and must not fall outside the reference's range (the lookup outside the range is not this property's subject)
            pr = np.array([ps[0] * 0.9] + ps + [min(ps[-1] * 1.05, 0.95)])
            ref_mol = nm * c * pr / ((1 - pr) * (1 - pr + c * pr))
            ref_mmol = bet_mol * 1000
            a_pt = float(np.interp(0.4, pa, ref_mmol))
            lo_hi = (float(min(ref_mol * 1000 / a_pt)) * 0.99, float(max(ref_mol * 1000 / a_pt)) * 1.01)
            info = {"n_m": nm, "C": c, "pressure": ps, "sample_stored": rep_label(smp_rep), "reference_stored": rep_label(ref_rep)}
            ck.count(("iso-alphas", i), bucket="recover:alpha_s entry point:reference stored in " + ref_rep["loading"][0])

            def run_alphas(what, sample, reference, ra, want_area, want_slope=None, want_volume=None):
                sig = {"method": "alpha_s", "case": what, "numeric_reference": ra != "BET", "reference_loading_is_mmol": ref_rep["loading"] == ("molar", "mmol")}
                try:
                    rr = pgc.alpha_s(sample, reference_isotherm=reference, reference_area=ra, reducing_pressure=0.4, t_limits=lo_hi)
                except (CalculationError, ParameterError) as e:
                    fail_few({**sig, "clause": "alpha-s on exact data refused"}, {**info, "reference_area": ra, "error": str(e)[:200]})
                    return
                except Exception as e:  # noqa
                    fail_few({**sig, "clause": "alpha-s raises a non-pyGAPS error", "error": type(e).__name__}, {**info, "reference_area": ra, "error": repr(e)[:200]})
                    return
                if not rr["results"]:
                    fail_few({**sig, "clause": "alpha-s on an exactly straight plot gives no fit"}, {**info, "reference_area": ra, "limits": lo_hi})
                    return
                r0 = rr["results"][0]
                errs = {"area": note("iso.alphas.area", r0["area"], want_area)}
                if want_slope is not None:
                    errs["slope"] = note("iso.alphas.slope", r0["slope"], want_slope)
                    errs["adsorbed_volume"] = note("iso.alphas.volume", r0["adsorbed_volume"], want_volume)
                bad = {kk: v for kk, v in errs.items() if v > 1e-6}
                if bad:
                    clause = "alpha-s against itself does not return the reference area" if what != "sample against reference" else "generating parameters not recovered"
                    fail_few({**sig, "clause": clause, "quantity": sorted(bad)[0]},
                                 {**info, "reference_area": ra, "slope": s_, "intercept": i_, "got": {kk: float(r0[kk]) for kk in ("area", "slope", "intercept", "adsorbed_volume")},
                                  "expected_area": want_area, "rel_errors": bad})

            self_iso = iso(ref_mol, ref_rep, pressure=pr)
            twin = iso(ref_mol, {**ref_rep, "loading": smp_rep["loading"], "temperature": smp_rep["temperature"]}, pressure=pr)
            num_area = rng.uniform(1, 2000)
            try:
                r = pgc.area_BET(self_iso)
                if note("iso.bet.area(reference)", r["area"] * f, area_g) > 1e-6:
                    fail_few({"method": "area_BET", "clause": "generating parameters not recovered", "quantity": "area", "stored": "reference of alpha-s"},
                                 {"n_m": nm, "C": c, "pressure": pr.tolist(), "stored": rep_label(ref_rep), "got": float(r["area"]), "expected": area_g / f})
            except CalculationError:
                r = None
            # (a) the reference against itself: the same object; (b) against a second object describing the same data in another representation
            for what, smp in (("same object", self_iso), ("same data, two objects", twin)):
                run_alphas(what, smp, self_iso, num_area, num_area)
                if r is not None:
                    run_alphas(what, smp, self_iso, "BET", float(r["area"]))
            # (c) a sample that is exactly linear in the reduced reference curve: slope, area = A_ref / n_ref(0.4) * slope, volume from the intercept
            sample = iso((s_ * ref_mmol / a_pt + i_) / 1000, smp_rep)
            run_alphas("sample against reference", sample, self_iso, num_area, num_area / a_pt * s_, s_ / f, i_ * M / rho / 1000 / f)
            if r is not None:
                run_alphas("sample against reference", sample, self_iso, "BET", area_g / a_pt * s_ / f, s_ / f, i_ * M / rho / 1000 / f)
        else:
            ck.count(("iso-alphas-skip", i), nontrivial=False, bucket="recover:alpha_s entry point:skipped (0.4 outside the grid)")
        try:
            r = pgc.area_langmuir(iso(nm * k * pa / (1 + k * pa)))
            errs = {"n_monolayer": note("iso.lang.n_m", r["n_monolayer"] * f, nm), "langmuir_const": note("iso.lang.K", r["langmuir_const"], k),
                    "area": note("iso.lang.area", r["area"] * f, area_g)}
            bad = {kk: v for kk, v in errs.items() if v > 1e-6}
            if bad:
                fail_few({"method": "area_langmuir", "clause": "generating parameters not recovered", "quantity": sorted(bad)[0], "stored": "default" if rep == PLAIN else "other"},
                             {"n_m": nm, "K": k, "pressure": ps, "stored": rl, "rel_errors": bad})
        except CalculationError:
            pass
        tcurve = mt.thickness_halsey(pa)
        r = pgc.t_plot(iso((s_ * tcurve + i_) / 1000), thickness_model="Halsey", t_limits=(float(tcurve[0]) * 0.99, float(tcurve[-1]) * 1.01))
        if not r["results"]:
            fail_few({"method": "t_plot", "clause": "exact straight t-plot not fitted"}, {"slope": s_, "intercept": i_, "stored": rl})
        else:
            r0 = r["results"][0]
            errs = {"slope": note("iso.tplot.slope", r0["slope"] * f, s_), "intercept": note("iso.tplot.intercept", r0["intercept"] * f, i_),
                    "area": note("iso.tplot.area", r0["area"] * f, s_ * M / rho), "adsorbed_volume": note("iso.tplot.volume", r0["adsorbed_volume"] * f, i_ * M / rho / 1000)}
            bad = {kk: v for kk, v in errs.items() if v > 1e-6}
            if bad:
                fail_few({"method": "t_plot", "clause": "generating parameters not recovered", "quantity": sorted(bad)[0], "stored": "default" if rep == PLAIN else "other"},
                             {"slope": s_, "intercept": i_, "pressure": ps, "stored": rl, "rel_errors": bad})
        V0, E, ex = rng.uniform(0.05, 1.5), rng.uniform(3, 25), rng.uniform(1, 3)
        pd_ = pa[pa < 0.4]
        if len(pd_) >= 5:
            nd = V0 * rho / M * np.exp(-(R * T * (-np.log(pd_)) / (1000 * E)) ** ex)
            r = pgc.da_plot(iso(nd, pressure=pd_), exp=ex)
            errs = {"pore_volume": note("iso.da.V0", r["pore_volume"] * f, V0), "adsorption_potential": note("iso.da.E", r["adsorption_potential"], E)}
            bad = {kk: v for kk, v in errs.items() if v > 1e-6}
            if bad:
                fail_few({"method": "da_plot", "clause": "generating parameters not recovered", "quantity": sorted(bad)[0], "stored": "default" if rep == PLAIN else "other"},
                             {"V0": V0, "E": E, "exp": ex, "pressure": pd_.tolist(), "stored": rl, "rel_errors": bad})
            nd2 = V0 * rho / M * np.exp(-(R * T * (-np.log(pd_)) / (1000 * E)) ** 2)
            r = pgc.dr_plot(iso(nd2, pressure=pd_))
            if max(note("iso.dr.V0", r["pore_volume"] * f, V0), note("iso.dr.E", r["adsorption_potential"], E)) > 1e-6:
                fail_few({"method": "dr_plot", "clause": "generating parameters not recovered", "stored": "default" if rep == PLAIN else "other"},
                             {"V0": V0, "E": E, "pressure": pd_.tolist(), "stored": rl, "got": [float(r["pore_volume"]), float(r["adsorption_potential"])]})

    # ------------------------------------------------------------------ 5. tiny tables: a BET, Langmuir or Dubinin fit on fewer than three points is refused
    # with a calculation error — whatever the limits (none at all, (None, None), one-sided, 0, all-including), through raw and isotherm entry points.
    # (Measured on the unchanged tree: every one of these calls raises CalculationError; the t-plot / alpha-s routines are not in this clause.)
    def tiny_limits(ps_):
        lo, hi = ps_[0] * rng.uniform(0.1, 0.9), min(ps_[-1] * rng.uniform(1.1, 3), 0.999)
        return [None, (None, None), (0, hi), (None, hi), (lo, None), (lo, hi), (0, 0), limits(rng, ps_, allow_none=False)]

    for i in range(ck.n(3, 12)):
        for npts in (1, 2, 3):
            ps = grid(rng, npts, 1e-3, 0.35) if npts > 1 else [rng.uniform(1e-3, 0.35)]
            if len(ps) != npts:
                continue
            pa = np.array(ps)
            nm, c, k = logu(rng, 1e-4, 1e-1), logu(rng, 2, 2000), logu(rng, 0.5, 500)
            V0, E, ex = rng.uniform(0.05, 1.5), rng.uniform(3, 25), rng.uniform(1, 3)
            tables = {"bet": nm * c * pa / ((1 - pa) * (1 - pa + c * pa)), "lang": nm * k * pa / (1 + k * pa),
                      "da": V0 * rho / M * np.exp(-(R * T * (-np.log(pa)) / (1000 * E)) ** ex)}

            def tiny_iso(load_mol):
                return pg.PointIsotherm(pressure=pa, loading=np.asarray(load_mol) * 1000, material="pgv-synth", adsorbate="N2", temperature=T, pressure_mode="relative", pressure_unit=None,
                                        loading_basis="molar", loading_unit="mmol", material_basis="mass", material_unit="g", temperature_unit="K")
            for lim in tiny_limits(ps):
                calls = [("area_BET_raw", "bet", lambda: ab.area_BET_raw(pa, tables["bet"], cs, lim)),
                         ("area_langmuir_raw", "lang", lambda: la.area_langmuir_raw(pa, tables["lang"], cs, lim)),
                         ("da_plot_raw", "da", lambda: da.da_plot_raw(pa, tables["da"], T, M, rho, exp=ex, p_limits=lim)),
                         ("da_plot_raw(exp=None)", "da", lambda: da.da_plot_raw(pa, tables["da"], T, M, rho, exp=None, p_limits=lim)),
                         ("area_BET", "bet", lambda: pgc.area_BET(tiny_iso(tables["bet"]), p_limits=lim)),
                         ("area_langmuir", "lang", lambda: pgc.area_langmuir(tiny_iso(tables["lang"]), p_limits=lim)),
                         ("dr_plot", "da", lambda: pgc.dr_plot(tiny_iso(tables["da"]), p_limits=lim)),
                         ("da_plot", "da", lambda: pgc.da_plot(tiny_iso(tables["da"]), exp=ex, p_limits=lim)),
                         ("da_plot(exp=None)", "da", lambda: pgc.da_plot(tiny_iso(tables["da"]), exp=None, p_limits=lim))]
                for name, table, call in calls:
                    if npts == 3 and not (name in ("da_plot_raw", "da_plot") and lim in (None, (None, None))):
                        continue        # three points: only the edge "a Dubinin fit of a whole three-point table is accepted and exact" is decided here
                    try:
                        out = call()
                        got = ("ok", out)
                    except CalculationError:
                        got = ("refused", None)
                    except Exception as e:  # noqa
                        got = ("error", f"{type(e).__name__}: {str(e)[:120]}")
                    lim_kind = "none" if lim is None else "given"
                    ck.count(("tiny", name, npts, lim_kind, got[0]), bucket=f"tiny table:{npts} point(s):limits {lim_kind}:{got[0]}")
                    detail = {"routine": name, "pressure": ps, "loading_mol_per_g": [float(v) for v in tables[table]], "limits": lim, "temperature": T}
                    if npts < 3 and got[0] == "ok":
                        fail_few({"method": name, "clause": "fit accepted on fewer than three points", "limits": lim_kind, "table": "fewer than three points in total"},
                                     {**detail, "returned": repr(out)[:300]})
                    elif npts < 3 and got[0] == "error":
                        fail_few({"method": name, "clause": "fit on fewer than three points ends in a non-pyGAPS error instead of a calculation error", "limits": lim_kind}, {**detail, "error": got[1]})
                    elif npts == 3:
                        if got[0] != "ok":
                            fail_few({"method": name, "clause": "exact three-point Dubinin table without limits not fitted", "outcome": got[0]}, {**detail, "error": got[1]})
                        else:
                            v0_got, e_got = (out["pore_volume"], out["adsorption_potential"]) if isinstance(out, dict) else (out[0], out[1])
                            if max(note("tiny.da.V0", v0_got, V0), note("tiny.da.E", e_got, E)) > 1e-6:
                                fail_few({"method": name, "clause": "generating parameters not recovered", "table": "three points, no limits"}, {**detail, "V0": V0, "E": E, "exp": ex, "got": [float(v0_got), float(e_got)]})
    ck.cov["worst_relative_errors"] = {k: float(f"{v:.3g}") for k, v in sorted(worst.items())}
    ck.cov["rule"] = ("generating parameters log-uniform over the quantifier's ranges (n_m 1e-4..1e-1, C 2..2000, K 0.5..500, DA volume/energy/exponent 1..3), grids of 5-100 increasing relative pressures "
                      "(random, linear, geometric), manual limits anywhere incl. exactly on data points / 0 / None, raw and isotherm entry points; window correspondence also on 1-4 point arrays and noisy data; isotherm entry points on isotherms stored in every loading basis "
                      "(molar incl. cm3(STP), mass, gas / liquid volume, percent, fraction), mass material units, relative / relative% / absolute pressure and K / °C, the alpha-s reference an object of its own in an "
                      "independent loading representation (pressure of the alpha-s pair relative only: S15a); 1- and 2-point tables through every BET / Langmuir / Dubinin entry point with and without limits")
    ck.assumptions += ["scipy.stats.linregress computes the ordinary least-squares line (compared with the exact ℚ model to 1e-7)",
                       "scipy.optimize.minimize_scalar for the DA exponent is numerical (checked to 2e-3)", "CoolProp liquid density / molar mass are inputs"]
