"""C14 — linearised characterisation methods recover the generating parameters.

Lean: Props/C14.lean over Gen/CharR.lean (per-point transforms and parameter formulas regenerated from the source on every run)
and Model/Linear.lean (window selection and least squares): exact recovery theorems for BET, Langmuir, t-plot, alpha-s and
DR/DA, exact characterisation of the selected window, the three-point refusal and the Rouquerol rule.
Tie: (1) translator validation — the Float copies of the generated formulas against the real functions; (2) correspondence of
Model/Linear.lean at ℚ with the real raw functions (windows, refusals, regression).  Failing-input search: synthetic isotherms
from the governing equations (written here independently) through the raw and the isotherm entry points.
"""
import math
from fractions import Fraction

from pgv.charlib import optq, q, qlist, quiet_logging, tv_run
from pgv.core import import_pygaps
from pgv.models import logu, relerr

R = 6.02214076e23 * 1.380649e-23      # exact SI value (N_A k_B)
NA = 6.02214076e23


def grid(rng, n=None, lo=1e-3, hi=0.95):
    n = n or rng.choice([5, 6, 8, 12, 20, 40, 100])
    style = rng.random() if n > 1 else 0.0
    if style < 0.5:
        ps = sorted({rng.uniform(lo, hi) for _ in range(n)})
    elif style < 0.8:
        a, b = sorted((rng.uniform(lo, hi * 0.4), rng.uniform(hi * 0.5, hi)))
        ps = [a + (b - a) * i / (n - 1) for i in range(n)]
    else:
        a = logu(rng, lo, 0.01)
        ps = sorted({a * (hi / a) ** (i / (n - 1)) for i in range(n)})
    return ps


def limits(rng, ps, allow_none=True):
    def one(k):
        r = rng.random()
        if r < 0.12:
            return None
        if r < 0.17:
            return 0
        if r < 0.32:
            return rng.choice(ps)          # exactly a data point
        if r < 0.37:
            return ps[0] * 0.5 if k == 0 else ps[-1] * 1.5
        return rng.uniform(ps[0] * 0.5, min(ps[-1] * 1.2, 0.999))
    if allow_none and rng.random() < 0.25:
        return None
    return (one(0), one(1))


def window_oracle(ps, lo, hi):
    """(must be included, may be included): indices strictly inside / inside or on the boundary of the given limits."""
    lo_v = lo if lo else None
    hi_v = hi if hi else None
    strict = [i for i, p in enumerate(ps) if (lo_v is None or p > lo_v) and (hi_v is None or p < hi_v)]
    loose = [i for i, p in enumerate(ps) if (lo_v is None or p >= lo_v) and (hi_v is None or p <= hi_v)]
    return strict, loose


def run(ck):
    pg = import_pygaps()
    import numpy as np
    from pygaps.characterisation import alphas_plots as al
    from pygaps.characterisation import area_bet as ab
    from pygaps.characterisation import area_lang as la
    from pygaps.characterisation import dr_da_plots as da
    from pygaps.characterisation import models_thickness as mt
    from pygaps.characterisation import t_plots as tp
    from pygaps.utilities.exceptions import CalculationError, ParameterError
    import pygaps.characterisation as pgc
    quiet_logging()
    rng = ck.rng
    thorough = ck.tier == "thorough"
    N = ck.n(60, 400)
    np.seterr(all="ignore")

    # ------------------------------------------------------------------ 1. translator validation
    cases = []
    for _ in range(ck.n(12, 40)):
        p, n = rng.uniform(0.001, 0.95), logu(rng, 1e-5, 1e2)
        cases.append(("roq_transform", {"pressure": p, "loading": n}, ab.roq_transform(p, n)))
        cases.append(("bet_transform", {"pressure": p, "loading": n}, ab.bet_transform(p, n)))
        nm, c = logu(rng, 1e-4, 1e-1), logu(rng, 2, 2000)
        cases.append(("simple_bet", {"pressure": p, "n_monolayer": nm, "c_const": c}, ab.simple_bet(p, nm, c)))
        slope, icpt, cs = logu(rng, 1, 1e4), logu(rng, 1e-3, 1e2), rng.uniform(0.1, 0.5)
        n_mono, p_mono, c_const, area = ab.bet_parameters(slope, icpt, cs)
        cases += [("bet_c_const", {"slope": slope, "intercept": icpt}, c_const),
                  ("bet_n_monolayer", {"intercept": icpt, "c_const": c_const, "slope": slope}, n_mono),
                  ("bet_p_monolayer", {"c_const": c_const}, p_mono),
                  ("bet_area", {"n_monolayer": n_mono, "cross_section": cs}, area)]
        cases.append(("langmuir_transform", {"pressure": p, "loading": n}, la.langmuir_transform(p, n)))
        k = logu(rng, 0.5, 500)
        cases.append(("simple_lang", {"pressure": p, "n_total": nm, "k_const": k}, la.simple_lang(p, nm, k)))
        n_mono, k_c, area = la.langmuir_parameters(slope, icpt, cs)
        cases += [("lang_n_monolayer", {"slope": slope}, n_mono),
                  ("lang_const", {"intercept": icpt, "n_monolayer": n_mono, "slope": slope}, k_c),
                  ("lang_area", {"n_monolayer": n_mono, "cross_section": cs}, area)]
        M, rho = rng.uniform(2, 150), rng.uniform(0.3, 2.0)
        ts = np.array(sorted(rng.uniform(0.2, 2) for _ in range(6)))
        s_, i_ = logu(rng, 0.1, 50), rng.uniform(0, 5)
        ld = s_ * ts + i_ + np.array([rng.uniform(-1e-3, 1e-3) for _ in ts])
        r = tp.t_plot_parameters(ts, ld, np.arange(6), M, rho)
        if r:
            cases += [("tplot_adsorbed_volume", {"intercept": r["intercept"], "molar_mass": M, "liquid_density": rho}, r["adsorbed_volume"]),
                      ("tplot_area", {"slope": r["slope"], "molar_mass": M, "liquid_density": rho}, r["area"])]
        a_pt, a_ref = rng.uniform(0.5, 20), rng.uniform(1, 2000)
        r = al.alpha_s_plot_parameters(ts, ld, np.arange(6), np.float64(a_pt), np.float64(a_ref), M, rho)
        if r:
            cases += [("alphas_adsorbed_volume", {"intercept": r["intercept"], "molar_mass": M, "liquid_density": rho}, r["adsorbed_volume"]),
                      ("alphas_area", {"reference_area": a_ref, "alpha_s_point": a_pt, "slope": r["slope"]}, r["area"])]
        _, curve = al.alpha_s_raw(ld, ts, a_pt, a_ref, rho, M, t_limits=(0, 100))
        cases.append(("alphas_curve", {"reference_loading": ts[2], "alpha_s_point": a_pt}, curve[2]))
        ex = rng.uniform(1, 3)
        cases.append(("log_v_adj", {"loading": n, "molar_mass": M, "liquid_density": rho}, da.log_v_adj(n, M, rho)))
        cases.append(("log_p_exp", {"pressure": p, "exp": ex}, da.log_p_exp(p, ex)))
        T = rng.uniform(70, 320)
        pp = np.array(grid(rng, 8, 1e-4, 0.3))
        nn = rng.uniform(0.1, 1) * rho / M * np.exp(-(R * T * (-np.log(pp)) / (1000 * rng.uniform(3, 20))) ** ex)
        r = da.da_plot_raw(pp, nn, T, M, rho, exp=ex)
        cases += [("da_microp_volume", {"intercept": r[4]}, r[0]), ("da_potential", {"iso_temp": T, "slope": r[3], "exp": ex}, r[1])]
        cases.append(("thickness_halsey", {"pressure": p}, mt.thickness_halsey(p)))
        cases.append(("thickness_harkins_jura", {"pressure": p}, mt.thickness_harkins_jura(p)))
        cases.append(("convert_to_thickness", {"loading": n, "monolayer": nm}, mt.convert_to_thickness(n, nm)))
    tv_run(ck, cases)

    # ------------------------------------------------------------------ 2. window + regression correspondence (ℚ model vs real raw functions)
    lines, plan = [], []
    for i in range(N * 2):
        kind = rng.choice(["bet", "bet", "lang", "da"])
        ps = grid(rng, rng.choice([1, 2, 3, 4, 5, 8, 20, 60]) if rng.random() < 0.4 else None)
        n = len(ps)
        if kind == "bet" and rng.random() < 0.6:
            # loading with a Rouquerol maximum somewhere (or nowhere)
            style = rng.random()
            if style < 0.3:
                ns = [rng.uniform(0.5, 2) for _ in ps]
            elif style < 0.55:
                # type-I data on a fine grid: n(1-p) has a flat maximum, the first decrease after it is tiny (and the capacity may be small)
                nm, k = (logu(rng, 1e-4, 1e-3) if rng.random() < 0.6 else logu(rng, 1e-3, 1e-1)), rng.uniform(15, 120)
                step = rng.choice([0.001, 0.0025, 0.005, 0.01])
                ps = [0.01 + step * j for j in range(int(rng.uniform(0.25, 0.5) / step))]
                n = len(ps)
                ns = [nm * k * p / (1 + k * p) for p in ps]
            else:
                nm, c = logu(rng, 1e-4, 1e-1), logu(rng, 2, 2000)
                cut = rng.uniform(0.1, 1.2)
                ns = [nm * c * p / ((1 - p) * (1 - p + c * p)) * (1.0 if p < cut else (1 - p) ** rng.uniform(0.5, 2)) for p in ps]
            lim = None if rng.random() < 0.7 else limits(rng, ps)
        else:
            nm, k = logu(rng, 1e-4, 1e-1), logu(rng, 0.5, 500)
            ns = [nm * k * p / (1 + k * p) * rng.uniform(0.95, 1.05) for p in ps]
            lim = limits(rng, ps)
        pa, na = np.array(ps), np.array(ns)
        try:
            if kind == "bet":
                r = ab.area_BET_raw(pa, na, 0.162, lim)
                got = ("ok", int(r[6]), int(r[7]), float(r[4]), float(r[5]))
            elif kind == "lang":
                r = la.area_langmuir_raw(pa, na, 0.162, lim)
                got = ("ok", int(r[5]), int(r[6]), float(r[3]), float(r[4]))
            else:
                r = da.da_plot_raw(pa, na, 77.0, 28.0, 0.8, exp=2, p_limits=lim)
                got = ("ok", int(r[5]), int(r[6]), float(r[3]), float(r[4]))
        except CalculationError:
            got = ("refused",)
        except Exception as e:  # noqa
            got = ("error", type(e).__name__, str(e)[:100])
        roq = [float(x) for x in ab.roq_transform(pa, na)]
        # near-tie guard for the two multiplied thresholds (float product vs exact product)
        tie = False
        if lim is None and kind in ("bet", "lang"):
            if kind == "bet":
                mx = next((j + 1 for j in range(n - 1) if roq[j] > roq[j + 1]), n - 1)
                th = [ps[mx] * 0.1]
            else:
                th = [ps[-1] * 0.05, ps[-1] * 0.9]
            tie = any(abs(p - t) <= 1e-12 * abs(t) for p in ps for t in th)
        if tie:
            ck.count(("win-tie", i), nontrivial=False, bucket="window:tie-skipped")
            continue
        flag = "N" if lim is None else "L"
        lo, hi = (None, None) if lim is None else lim
        lines.append(f"win {kind} {flag} {optq(lo)} {optq(hi)} {qlist(ps)} {qlist(roq)}")
        plan.append(("win", kind, ps, ns, lim, got))
        ck.count(("win", kind, n, str(lim), got[0]), bucket=f"window:{kind}:{'auto' if lim is None else 'manual'}:{got[0]}",
                 sample={"kind": kind, "n": n, "limits": lim, "result": got[:3]} if i % 97 == 0 else None)
        # ---- property oracle on the window (independent of the model)
        sig = {"method": kind, "clause": None}
        if got[0] == "error":
            ck.fail_case({**sig, "clause": "window selection raises a non-pyGAPS error", "error": got[1]}, {"pressure": ps, "loading": ns, "limits": lim, "error": got})
        elif lim is not None:
            strict, loose = window_oracle(ps, lim[0], lim[1])
            if got[0] == "refused":
                if len(strict) >= 3:
                    ck.fail_case({**sig, "clause": "refused although three or more points lie strictly inside the limits"}, {"pressure": ps, "limits": lim})
            else:
                sel = list(range(got[1], got[2] + 1))
                if len(loose) < 3:
                    ck.fail_case({**sig, "clause": "fit accepted on fewer than three points"}, {"pressure": ps, "limits": lim, "selected": sel})
                elif not (set(strict) <= set(sel) <= set(loose)):
                    ck.fail_case({**sig, "clause": "fitted region is not the set of points inside the limits"}, {"pressure": ps, "limits": lim, "selected": sel, "inside": strict})
        elif kind == "bet":
            mx = next((j + 1 for j in range(n - 1) if roq[j] > roq[j + 1]), n - 1)
            mn = next((j for j, p in enumerate(ps) if p >= ps[mx] * 0.1), n)
            if got[0] == "refused":
                if mx - mn >= 2:
                    ck.fail_case({**sig, "clause": "automatic window refused although it holds three points"}, {"pressure": ps, "loading": ns, "expected": [mn, mx]})
            elif (got[1], got[2]) != (mn, mx):
                ck.fail_case({**sig, "clause": "automatic BET window is not the Rouquerol window"}, {"pressure": ps, "loading": ns, "expected": [mn, mx], "got": got[1:3]})
        # regression correspondence on the selected slice
        if got[0] == "ok":
            a, b = got[1], got[2] + 1
            if kind == "bet":
                xs, ys = ps[a:b], [float(v) for v in ab.bet_transform(pa[a:b], na[a:b])]
            elif kind == "lang":
                xs, ys = ps[a:b], [float(v) for v in la.langmuir_transform(pa[a:b], na[a:b])]
            else:
                xs, ys = [float(v) for v in da.log_p_exp(pa[a:b], 2)], [float(v) for v in da.log_v_adj(na[a:b], 28.0, 0.8)]
            if i % 3 == 0 and len(xs) <= 25 and all(map(math.isfinite, xs + ys)):
                lines.append(f"ols {qlist(xs)} {qlist(ys)}")
                plan.append(("ols", kind, xs, ys, None, got))
    # t-plot / alpha-s open sections
    for i in range(N // 2):
        ps = grid(rng)
        curve = [float(v) for v in mt.thickness_halsey(np.array(ps))]
        lo, hi = sorted((rng.choice(curve) if rng.random() < 0.3 else rng.uniform(curve[0] * 0.8, curve[-1]), rng.uniform(curve[0], curve[-1] * 1.2)))
        ld = np.array([2.0 * t + 1.0 for t in curve])
        res, _ = tp.t_plot_raw(ld, np.array(ps), mt.thickness_halsey, 0.8, 28.0, t_limits=(lo, hi))
        inside = [j for j, t in enumerate(curve) if lo < t < hi]
        if res:
            sec = [int(j) for j in res[0]["section"]]
            lines.append(f"sec {q(lo)} {q(hi)} {qlist(curve)}")
            plan.append(("sec", "tplot", curve, None, (lo, hi), sec))
            ck.count(("sec", i), bucket="window:t-plot section")
            loose = [j for j, t in enumerate(curve) if lo <= t <= hi]
            if not (set(inside) <= set(sec) <= set(loose)):
                ck.fail_case({"method": "t-plot", "clause": "fitted region is not the set of points inside the limits"}, {"curve": curve, "limits": [lo, hi], "section": sec})
    n_dis = 0
    try:
        replies = ck.drive("Char", lines) if lines else []
    except Exception as e:
        replies = None
        ck.broken.append({"step": "driver Char", "what": str(e)[:600]})
    if replies is not None:
        for (what, kind, a, b, lim, got), rep, line in zip(plan, replies, lines):
            t = rep.split()
            ck.count(("corr", what, kind), nontrivial=False, bucket="correspondence:" + what)
            if what == "win":
                ok = (t[0] == "refused" and got[0] == "refused") or (t[0] == "ok" and got[0] == "ok" and (int(t[1]), int(t[2])) == got[1:3])
                if got[0] == "error":
                    ok = True      # reported by the oracle above
            elif what == "ols":
                if t[0] != "ok":
                    ok = False
                else:
                    sl, ic = (Fraction(*map(int, x.split("/"))) for x in t[1:3])
                    scale = max(abs(float(ic)), abs(float(sl)) * max(abs(x) for x in a), 1e-300)
                    ok = abs(float(sl) - got[3]) <= 1e-7 * max(abs(got[3]), scale / max(abs(x) for x in a)) and abs(float(ic) - got[4]) <= 1e-7 * scale
            else:
                ok = t[0] == "ok" and [int(x) for x in t[1][1:-1].split(";") if x] == got
            if not ok:
                n_dis += 1
                if n_dis <= 3:
                    ck.broken.append({"step": f"correspondence Model/Linear.lean ({what} {kind})", "what": {"request": line[:400], "model": rep[:200], "implementation": str(got)[:200]}})
    ck.cov["correspondence_disagreements"] = n_dis

    # ------------------------------------------------------------------ 3. recovery oracle: raw entry points
    worst = {}

    def note(k, a, b):
        e = relerr(a, b)
        worst[k] = max(worst.get(k, 0.0), e)
        return e

    for i in range(N):
        ps = grid(rng)
        pa = np.array(ps)
        cs = rng.uniform(0.1, 0.5)
        manual = rng.random() < 0.5
        # ---------------- BET
        nm, c = logu(rng, 1e-4, 1e-1), logu(rng, 2, 2000)
        na = nm * c * pa / ((1 - pa) * (1 - pa + c * pa))
        lim = None
        if manual:
            a, b = sorted(rng.sample(range(len(ps)), 2))
            if b - a >= 3:
                lim = (ps[a] * 0.999, ps[b] * 1.001)
        ck.count(("bet", i), bucket="recover:BET:" + ("manual" if lim else "auto"), sample={"n_m": nm, "C": c, "points": len(ps), "limits": lim} if i % 50 == 0 else None)
        try:
            r = ab.area_BET_raw(pa, na, cs, lim)
            exp_area = nm * cs * 1e-18 * NA
            errs = {"n_monolayer": note("bet.n_m", r[2], nm), "c_const": note("bet.C", r[1], c), "area": note("bet.area", r[0], exp_area),
                    "p_monolayer": note("bet.p_m", r[3], 1 / (math.sqrt(c) + 1)),
                    "slope": note("bet.slope", r[4], (c - 1) / (nm * c)), "intercept": note("bet.intercept", r[5], 1 / (nm * c))}
            bad = {k: v for k, v in errs.items() if v > 1e-6}
            if bad:
                ck.fail_case({"method": "BET", "clause": "generating parameters not recovered", "quantity": sorted(bad)[0]},
                             {"n_m": nm, "C": c, "cross_section": cs, "pressure": ps, "limits": lim, "result": [float(x) for x in r], "rel_errors": bad})
        except CalculationError as e:
            inside = len(ps) if lim is None else len([p for p in ps if lim[0] < p < lim[1]])
            if lim is not None or len([p for p in ps if p >= 0.1 * ps[-1]]) >= 3:
                ck.fail_case({"method": "BET", "clause": "exact BET data refused"}, {"n_m": nm, "C": c, "pressure": ps, "limits": lim, "error": str(e)[:200], "inside": inside})
        # ---------------- Langmuir
        k = logu(rng, 0.5, 500)
        na = nm * k * pa / (1 + k * pa)
        try:
            r = la.area_langmuir_raw(pa, na, cs, lim)
            errs = {"n_monolayer": note("lang.n_m", r[2], nm), "langmuir_const": note("lang.K", r[1], k), "area": note("lang.area", r[0], nm * cs * 1e-18 * NA),
                    "slope": note("lang.slope", r[3], 1 / nm), "intercept": note("lang.intercept", r[4], 1 / (nm * k))}
            bad = {kk: v for kk, v in errs.items() if v > 1e-6}
            ck.count(("lang", i), bucket="recover:Langmuir")
            if bad:
                ck.fail_case({"method": "Langmuir", "clause": "generating parameters not recovered", "quantity": sorted(bad)[0]},
                             {"n_m": nm, "K": k, "pressure": ps, "limits": lim, "result": [float(x) for x in r], "rel_errors": bad})
        except CalculationError:
            ck.count(("lang-ref", i), nontrivial=False, bucket="recover:Langmuir refused (window)")
        # ---------------- t-plot with the built-in thickness models
        tm = rng.choice([mt.thickness_halsey, mt.thickness_harkins_jura])
        M, rho = rng.uniform(2, 150), rng.uniform(0.3, 2.0)
        tcurve = tm(pa)
        s_, i_ = logu(rng, 0.1, 50), rng.uniform(0, 5)
        ld = s_ * tcurve + i_
        tl = (float(tcurve[0]) * 0.99, float(tcurve[-1]) * 1.01)
        res, tc = tp.t_plot_raw(ld, pa, tm, rho, M, t_limits=tl)
        ck.count(("tplot", i), bucket="recover:t-plot")
        if not res:
            ck.fail_case({"method": "t-plot", "clause": "exact straight t-plot not fitted"}, {"slope": s_, "intercept": i_, "pressure": ps})
        else:
            r = res[0]
            errs = {"slope": note("tplot.slope", r["slope"], s_), "area": note("tplot.area", r["area"], s_ * M / rho)}
            if i_ > 1e-3:
                errs["intercept"] = note("tplot.intercept", r["intercept"], i_)
                errs["adsorbed_volume"] = note("tplot.volume", r["adsorbed_volume"], i_ * M / rho / 1000)
            bad = {kk: v for kk, v in errs.items() if v > 1e-6}
            if bad:
                ck.fail_case({"method": "t-plot", "clause": "generating parameters not recovered", "quantity": sorted(bad)[0]},
                             {"slope": s_, "intercept": i_, "M": M, "rho": rho, "pressure": ps, "result": {kk: float(v) for kk, v in r.items() if kk != "section"}, "rel_errors": bad})
        # ---------------- alpha-s (raw): loading linear in the reference loading
        ref = nm * 1000 * c * pa / ((1 - pa) * (1 - pa + c * pa))
        a_pt, a_ref = float(np.interp(0.4, pa, ref)) or 1.0, rng.uniform(1, 2000)
        ld = s_ * (ref / a_pt) + i_
        ref_before = ref.copy()
        res, curve = al.alpha_s_raw(ld, ref, a_pt, np.float64(a_ref), rho, M, t_limits=(float(min(ref_before / a_pt)) * 0.99, float(max(ref_before / a_pt)) * 1.01))
        ck.count(("alphas", i), bucket="recover:alpha-s raw")
        if not np.array_equal(ref, ref_before):
            ck.fail_case({"method": "alpha-s", "clause": "the caller's reference array is modified by the analysis"}, {"alpha_s_point": a_pt, "before": ref_before[:3].tolist(), "after": ref[:3].tolist()})
            ref = ref_before.copy()
        # the reference against itself (same array object as sample and as reference) returns the reference area
        own = ref.copy()
        res_self, _ = al.alpha_s_raw(own, own, a_pt, np.float64(a_ref), rho, M, t_limits=(float(min(ref / a_pt)) * 0.99, float(max(ref / a_pt)) * 1.01))
        if res_self and relerr(float(res_self[0]["area"]), a_ref) > 1e-6:
            ck.fail_case({"method": "alpha-s", "clause": "alpha-s against itself does not return the reference area", "entry": "raw arrays"},
                         {"alpha_s_point": a_pt, "reference_area": a_ref, "got": float(res_self[0]["area"])})
        if res:
            r = res[0]
            errs = {"slope": note("alphas.slope", r["slope"], s_), "area": note("alphas.area", r["area"], a_ref / a_pt * s_)}
            if i_ > 1e-3:
                errs["adsorbed_volume"] = note("alphas.volume", r["adsorbed_volume"], i_ * M / rho / 1000)
            bad = {kk: v for kk, v in errs.items() if v > 1e-6}
            if bad:
                ck.fail_case({"method": "alpha-s", "clause": "generating parameters not recovered", "quantity": sorted(bad)[0]},
                             {"slope": s_, "intercept": i_, "alpha_s_point": a_pt, "reference_area": a_ref, "rel_errors": bad})
        elif s_ * (max(ref / a_pt) / max(ld)) < 2.9:
            ck.fail_case({"method": "alpha-s", "clause": "exact straight alpha-s plot not fitted"}, {"slope": s_, "intercept": i_})
        # ---------------- Dubinin-Astakhov / Radushkevich
        T, V0, E, ex = rng.uniform(70, 320), rng.uniform(0.05, 1.5), rng.uniform(3, 25), rng.uniform(1, 3)
        pd_ = np.array(grid(rng, None, 1e-5, 0.4))
        nd = V0 * rho / M * np.exp(-(R * T * (-np.log(pd_)) / (1000 * E)) ** ex)
        ck.count(("da", i), bucket="recover:DA")
        try:
            r = da.da_plot_raw(pd_, nd, T, M, rho, exp=ex)
            errs = {"pore_volume": note("da.V0", r[0], V0), "potential": note("da.E", r[1], E)}
            bad = {kk: v for kk, v in errs.items() if v > 1e-6}
            if bad:
                ck.fail_case({"method": "DA", "clause": "generating parameters not recovered", "quantity": sorted(bad)[0]},
                             {"V0": V0, "E": E, "exp": ex, "T": T, "M": M, "rho": rho, "pressure": pd_.tolist(), "rel_errors": bad})
            if i % 4 == 0 and len(pd_) >= 8:
                r = da.da_plot_raw(pd_, nd, T, M, rho, exp=None)
                errs = {"exponent": note("da.exp(fit)", r[2], ex), "pore_volume": note("da.V0(fit)", r[0], V0), "potential": note("da.E(fit)", r[1], E)}
                bad = {kk: v for kk, v in errs.items() if v > 2e-3}
                if bad:
                    ck.fail_case({"method": "DA", "clause": "exponent search does not recover the generating exponent", "ends_at_upper_bound": bool(r[2] > 2.999) and ex < 2.9},
                                 {"V0": V0, "E": E, "exp": ex, "T": T, "pressure": pd_.tolist(), "result": [float(x) for x in r[:3]], "rel_errors": bad})
        except CalculationError as e:
            ck.fail_case({"method": "DA", "clause": "exact DA data refused"}, {"V0": V0, "E": E, "exp": ex, "error": str(e)[:200]})

    # ------------------------------------------------------------------ 4. isotherm entry points
    from pygaps.core.adsorbate import Adsorbate
    ads = Adsorbate.find("N2")
    T = 77.355
    M, rho, cs = ads.molar_mass(), ads.liquid_density(T), ads.get_prop("cross_sectional_area")
    for i in range(max(6, N // 6)):
        ps = grid(rng, rng.choice([12, 20, 40, 100]), 1e-3, 0.9)
        pa = np.array(ps)
        nm, c, k = logu(rng, 1e-4, 1e-1), logu(rng, 2, 2000), logu(rng, 0.5, 500)

        def iso(load_mol):
            return pg.PointIsotherm(pressure=pa, loading=np.asarray(load_mol) * 1000, material="pgv-synth", adsorbate="N2", temperature=T,
                                    pressure_mode="relative", pressure_unit=None, loading_basis="molar", loading_unit="mmol",
                                    material_basis="mass", material_unit="g", temperature_unit="K")
        ck.count(("iso-entry", i), bucket="recover:isotherm entry points", sample={"n_m": nm, "C": c, "K": k, "points": len(ps)} if i == 0 else None)
        bet_iso = iso(nm * c * pa / ((1 - pa) * (1 - pa + c * pa)))
        try:
            r = pgc.area_BET(bet_iso)
            errs = {"n_monolayer": note("iso.bet.n_m", r["n_monolayer"], nm), "c_const": note("iso.bet.C", r["c_const"], c),
                    "area": note("iso.bet.area", r["area"], nm * cs * 1e-18 * NA)}
            bad = {kk: v for kk, v in errs.items() if v > 1e-6}
            if bad:
                ck.fail_case({"method": "area_BET", "clause": "generating parameters not recovered", "quantity": sorted(bad)[0]}, {"n_m": nm, "C": c, "rel_errors": bad})
            # alpha-s against itself returns the reference area, for 'BET' and for a numeric reference area
            lo_hi = (0.2, 5.0)
            for ra in ("BET", float(r["area"]) * 0.5):
                try:
                    rr = pgc.alpha_s(bet_iso, reference_isotherm=bet_iso, reference_area=ra, reducing_pressure=0.4, t_limits=lo_hi)
                    want = float(r["area"]) if ra == "BET" else ra
                    if not rr["results"]:
                        ck.fail_case({"method": "alpha_s", "clause": "alpha-s against itself gives no fit"}, {"reference_area": ra})
                    elif note("iso.alphas.area", rr["results"][0]["area"], want) > 1e-6:
                        ck.fail_case({"method": "alpha_s", "clause": "alpha-s against itself does not return the reference area"},
                                     {"reference_area": ra, "got": float(rr["results"][0]["area"]), "expected": want})
                except (CalculationError, ParameterError) as e:
                    ck.fail_case({"method": "alpha_s", "clause": "alpha-s against itself refused", "numeric_reference": ra != "BET"}, {"reference_area": ra, "error": str(e)[:200]})
                except Exception as e:  # noqa
                    ck.fail_case({"method": "alpha_s", "clause": "alpha-s raises a non-pyGAPS error", "numeric_reference": ra != "BET", "error": type(e).__name__},
                                 {"reference_area": ra, "error": repr(e)[:200]})
        except CalculationError as e:
            ck.fail_case({"method": "area_BET", "clause": "exact BET data refused"}, {"n_m": nm, "C": c, "error": str(e)[:200]})
        try:
            r = pgc.area_langmuir(iso(nm * k * pa / (1 + k * pa)))
            errs = {"n_monolayer": note("iso.lang.n_m", r["n_monolayer"], nm), "langmuir_const": note("iso.lang.K", r["langmuir_const"], k),
                    "area": note("iso.lang.area", r["area"], nm * cs * 1e-18 * NA)}
            bad = {kk: v for kk, v in errs.items() if v > 1e-6}
            if bad:
                ck.fail_case({"method": "area_langmuir", "clause": "generating parameters not recovered", "quantity": sorted(bad)[0]}, {"n_m": nm, "K": k, "rel_errors": bad})
        except CalculationError:
            pass
        s_, i_ = logu(rng, 0.1, 50), rng.uniform(0.01, 5)
        tcurve = mt.thickness_halsey(pa)
        r = pgc.t_plot(iso((s_ * tcurve + i_) / 1000), thickness_model="Halsey", t_limits=(float(tcurve[0]) * 0.99, float(tcurve[-1]) * 1.01))
        if not r["results"]:
            ck.fail_case({"method": "t_plot", "clause": "exact straight t-plot not fitted"}, {"slope": s_, "intercept": i_})
        else:
            r0 = r["results"][0]
            errs = {"slope": note("iso.tplot.slope", r0["slope"], s_), "intercept": note("iso.tplot.intercept", r0["intercept"], i_),
                    "area": note("iso.tplot.area", r0["area"], s_ * M / rho), "adsorbed_volume": note("iso.tplot.volume", r0["adsorbed_volume"], i_ * M / rho / 1000)}
            bad = {kk: v for kk, v in errs.items() if v > 1e-6}
            if bad:
                ck.fail_case({"method": "t_plot", "clause": "generating parameters not recovered", "quantity": sorted(bad)[0]}, {"slope": s_, "intercept": i_, "rel_errors": bad})
        V0, E, ex = rng.uniform(0.05, 1.5), rng.uniform(3, 25), rng.uniform(1, 3)
        pd_ = pa[pa < 0.4]
        if len(pd_) >= 5:
            nd = V0 * rho / M * np.exp(-(R * T * (-np.log(pd_)) / (1000 * E)) ** ex)
            d_iso = pg.PointIsotherm(pressure=pd_, loading=nd * 1000, material="pgv-synth", adsorbate="N2", temperature=T, pressure_mode="relative", pressure_unit=None,
                                     loading_basis="molar", loading_unit="mmol", material_basis="mass", material_unit="g", temperature_unit="K")
            r = pgc.da_plot(d_iso, exp=ex)
            errs = {"pore_volume": note("iso.da.V0", r["pore_volume"], V0), "adsorption_potential": note("iso.da.E", r["adsorption_potential"], E)}
            bad = {kk: v for kk, v in errs.items() if v > 1e-6}
            if bad:
                ck.fail_case({"method": "da_plot", "clause": "generating parameters not recovered", "quantity": sorted(bad)[0]}, {"V0": V0, "E": E, "exp": ex, "rel_errors": bad})
            nd2 = V0 * rho / M * np.exp(-(R * T * (-np.log(pd_)) / (1000 * E)) ** 2)
            d_iso2 = pg.PointIsotherm(pressure=pd_, loading=nd2 * 1000, material="pgv-synth", adsorbate="N2", temperature=T, pressure_mode="relative", pressure_unit=None,
                                      loading_basis="molar", loading_unit="mmol", material_basis="mass", material_unit="g", temperature_unit="K")
            r = pgc.dr_plot(d_iso2)
            if max(note("iso.dr.V0", r["pore_volume"], V0), note("iso.dr.E", r["adsorption_potential"], E)) > 1e-6:
                ck.fail_case({"method": "dr_plot", "clause": "generating parameters not recovered"}, {"V0": V0, "E": E, "got": [float(r["pore_volume"]), float(r["adsorption_potential"])]})
    ck.cov["worst_relative_errors"] = {k: float(f"{v:.3g}") for k, v in sorted(worst.items())}
    ck.cov["rule"] = ("generating parameters log-uniform over the quantifier's ranges (n_m 1e-4..1e-1, C 2..2000, K 0.5..500, DA volume/energy/exponent 1..3), grids of 5-100 increasing relative pressures "
                      "(random, linear, geometric), manual limits anywhere incl. exactly on data points / 0 / None, raw and isotherm entry points; window correspondence also on 1-4 point arrays and noisy data")
    ck.assumptions += ["scipy.stats.linregress computes the ordinary least-squares line (compared with the exact ℚ model to 1e-7)",
                       "scipy.optimize.minimize_scalar for the DA exponent is numerical (checked to 2e-3)", "CoolProp liquid density / molar mass are inputs"]
