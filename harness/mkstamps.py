#!/usr/bin/env python3
"""Rewrite harness/stamps.lock.json from /repo's current tree.  Run by hand after the models and harnesses have been
re-validated against the code (all checks clean); never run by a check."""
import json
import sys
from pathlib import Path

sys.path.insert(0, str(Path(__file__).resolve().parent))
from pgv import core, stamps  # noqa

lock = {}
for line in (core.VERIF / "properties.jsonl").read_text().splitlines():
    if line.strip():
        d = json.loads(line)
        lock[d["id"]] = stamps.current(core.REPO, d["anchors"]["files"])
head = core.sh(["git", "-C", str(core.REPO), "rev-parse", "HEAD"])[1].strip()
(core.VERIF / "harness" / "stamps.lock.json").write_text(json.dumps({"repo_head": head, "stamps": lock, "package": stamps.package_digests(core.REPO)}, indent=0, sort_keys=True))
print("stamped", sum(len(f) for p in lock.values() for f in p.values()), "functions at", head)
