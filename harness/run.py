"""Entry point of ./check."""
import argparse
import importlib
import os
import sys
from pathlib import Path

HERE = Path(__file__).resolve().parent
sys.path.insert(0, str(HERE))
sys.path.insert(0, str(HERE / "props"))

from pgv import core  # noqa: E402

# property -> (Lean modules to build, Gen files to regenerate, drivers)
CONFIG = {
    "C01": dict(gen=["Units", "Accessors"], drivers=["Units"]),
    "C20": dict(gen=["Registry", "Units", "Accessors"], drivers=["Registry", "Accessor"]),
    "C11": dict(gen=["Models"], drivers=["ModelsF", "SpreadPoint"], extra_prop_files=["PgVerif/Tie/Models.lean"]),
    "C12": dict(gen=["Models"], drivers=["Fit"]),
    "C13": dict(gen=["Models"], drivers=["Iast"]),
    "C14": dict(gen=["Char"], drivers=["Char"]),
    "C15": dict(gen=["Char", "Units"], drivers=["Access"]),
    "C16": dict(gen=["Char"], drivers=["Char", "Meso"]),
    "C18": dict(gen=["Char"], drivers=["Kernel", "Char"]),
    "C19": dict(gen=["Char", "Models"], drivers=["Char", "Enthalpy"]),
    "C17": dict(gen=["Char"], drivers=["Char", "HKPot"]),
    "C02": dict(gen=["Units", "IsoParams"], drivers=["IsoState"]),
    "C03": dict(gen=["Units"], drivers=["Access"]),
    "C04": dict(gen=[], drivers=["Cache"]),
    "C05": dict(gen=["Units", "IsoParams"], drivers=["Json", "Identity", "Construct"]),
    "C06": dict(gen=["Units", "IsoParams"], drivers=["Json"]),
    "C07": dict(gen=["Formats"], drivers=["TextCodec"]),
    "C08": dict(gen=["Schema"], drivers=["Store", "Schema"]),
    "C09": dict(gen=["Schema"], drivers=["Store", "Pager"]),
    "C10": dict(gen=["Models"], drivers=["ModelsF", "ModelEval"], extra_prop_files=["PgVerif/Tie/Models.lean"]),
}


def setup():
    """MANIFEST.setup_cmd: regenerate Gen/, build every property's proof cone and the drivers."""
    from pgv import translate
    translate.generate(core.SRC, core.LEAN / "PgVerif" / "Gen", None)
    mods = []
    for pid, cfg in CONFIG.items():
        ck = core.Check(pid, "quick", 0)
        ck.extra_prop_files = list(cfg.get("extra_prop_files", ()))
        mods += [".".join(f.relative_to(core.LEAN).with_suffix("").parts) for f in ck.prop_files()]
        mods += [f"PgVerif.Drv.{d}" for d in cfg.get("drivers", [])]
    rc, out, err = core.sh(["lake", "build"] + sorted(set(mods)), cwd=core.LEAN, timeout=7200)
    sys.stdout.write(out[-3000:])
    sys.stderr.write(err[-3000:])
    return 0 if rc == 0 else 2


def main():
    ap = argparse.ArgumentParser()
    ap.add_argument("prop", nargs="?")
    ap.add_argument("--tier", default=os.environ.get("VERIF_TIER", "quick"), choices=["quick", "thorough"])
    ap.add_argument("--replay")
    ap.add_argument("--setup", action="store_true")
    a = ap.parse_args()
    if a.setup:
        return setup()
    pid = a.prop.upper()
    if pid not in CONFIG:
        print(f"unknown property {pid}", file=sys.stderr)
        return 2
    seed = int(os.environ.get("VERIF_SEED", "0") or 0)
    mod = importlib.import_module(pid.lower())
    cfg = CONFIG[pid]
    return core.run_check(pid, a.tier, seed, a.replay, mod.run, modules=cfg.get("modules"), gen=cfg.get("gen"),
                          drivers=cfg.get("drivers", ()), level=cfg.get("level", "proof"),
                          extra_prop_files=cfg.get("extra_prop_files", ()))


if __name__ == "__main__":
    sys.exit(main())
