#!/bin/sh
# setup_cmd: build the Lean project from files on disk (offline)
cd "$(dirname "$0")" && exec ./check --setup
