import warnings, logging, time
warnings.filterwarnings('ignore')
import pygaps, numpy as np, pandas as pd
pygaps.logger.setLevel(logging.CRITICAL)
import pygaps.parsing as pgp, pygaps.characterisation as pgc, pygaps.iast as pgi
from pygaps.characterisation.area_bet import area_BET_raw, simple_bet
from pygaps.characterisation.area_lang import area_langmuir_raw, simple_lang
from pygaps.characterisation.dr_da_plots import da_plot_raw
from pygaps.characterisation.t_plots import t_plot_raw
from scipy import constants
def tryit(label, f):
    t=time.time()
    try:
        r = f(); print(label, '->', r, f'[{time.time()-t:.2f}s]')
    except Exception as e:
        print(label, 'RAISES', type(e).__name__, str(e)[:160].replace('\n',' '))
# C14 BET exact recovery
p = np.linspace(0.01, 0.6, 40); nm, C = 0.005, 120.0
r = area_BET_raw(p, simple_bet(p, nm, C), 0.162, p_limits=(0.05, 0.3))
print('BET', r[2]/nm-1, r[1]/C-1, r[3]-1/(np.sqrt(C)+1), r[0]/(nm*0.162*1e-18*constants.Avogadro)-1, r[6], r[7], p[r[6]], p[r[7]])
r = area_BET_raw(p, simple_bet(p, nm, C), 0.162)
roq = simple_bet(p,nm,C)*(1-p); imax = int(np.argmax(roq)); print('BET auto', r[6], r[7], 'argmax roq', imax, 'p[max]*0.1', p[r[7]]*0.1, p[r[6]])
# limit equal to a data point
r = area_BET_raw(p, simple_bet(p, nm, C), 0.162, p_limits=(p[3], p[20])); print('limits at data pts', r[6], r[7], '(3,20)?')
tryit('BET 2 pts', lambda: area_BET_raw(p, simple_bet(p, nm, C), 0.162, p_limits=(p[3]-1e-9, p[5]-1e-9))[6:8])
tryit('BET 3 pts', lambda: area_BET_raw(p, simple_bet(p, nm, C), 0.162, p_limits=(p[3]-1e-9, p[6]-1e-9))[6:8])
# Langmuir
K=50.; r = area_langmuir_raw(p, simple_lang(p, nm, K), 0.162, p_limits=(0.05,0.5)); print('Lang', r[2]/nm-1, r[1]/K-1)
# DA
T=77.; M=28.; rho=0.8; V0=0.4; E=6.0; m=2.3
pr = np.logspace(-5,-1,40); V = V0*np.exp(-((constants.gas_constant*T/1000/E)*(-np.log(pr)))**m); n = V*rho/M
r = da_plot_raw(pr, n, T, M, rho, exp=m); print('DA given exp', r[0]/V0-1, r[1]/E-1)
r = da_plot_raw(pr, n, T, M, rho, exp=None); print('DA find exp', r[0]/V0-1, r[1]/E-1, r[2]-m)
r = da_plot_raw(pr, n, T, M, rho, exp=2); 
# t-plot
from pygaps.characterisation.models_thickness import thickness_harkins_jura
pp = np.linspace(0.05,0.8,40); tc = thickness_harkins_jura(pp); s_, i_ = 3.0, 1.5; ld = i_ + s_*tc
res, _ = t_plot_raw(ld, pp, thickness_harkins_jura, rho, M, t_limits=(0.3,0.9)); print('tplot', [(x['slope']/s_-1, x['intercept']/i_-1, x['area']/(s_*M/rho)-1, x['adsorbed_volume']/(i_*M/rho/1000)-1) for x in res])
# C17 published HK slit
from pygaps.characterisation.psd_micro import psd_horvath_kawazoe, _dispersion_from_dict, _N_over_RT
from pygaps.characterisation.models_hk import PROPERTIES_CARBON
adsp = dict(molecular_diameter=0.3, polarizability=1.46e-3, magnetic_susceptibility=2e-7, surface_density=6.7e18, liquid_density=0.808, adsorbate_molar_mass=28.0134)
def hk_published(L, T):  # L internuclear slab distance nm
    d_a, d_s = adsp['molecular_diameter'], PROPERTIES_CARBON['molecular_diameter']; d0=(d_a+d_s)/2
    a_ads, a_mat = _dispersion_from_dict(adsp, PROPERTIES_CARBON)
    sigma = (2/5)**(1/6)*d0
    pref = constants.Avogadro*(adsp['surface_density']*a_ads + PROPERTIES_CARBON['surface_density']*a_mat)/(constants.gas_constant*T*(sigma*1e-9)**4*(L-2*d0))
    return np.exp(pref*(sigma**4/(3*(L-d0)**3) - sigma**10/(9*(L-d0)**9) - sigma**4/(3*d0**3) + sigma**10/(9*d0**9)))
Ls = np.linspace(0.75, 2.0, 12); ps = hk_published(Ls, 77.0)
w, dist, cum = psd_horvath_kawazoe(ps, np.linspace(1,5,12), 77.0, 'slit', adsp, PROPERTIES_CARBON)
print('HK published roundtrip max err (avg widths vs expected)', np.max(np.abs(w - ((Ls[:-1]+Ls[1:])/2 - PROPERTIES_CARBON['molecular_diameter']))))
# C20 fallback/unit honoured
a = pygaps.Adsorbate.find('N2'); print('psat units', a.saturation_pressure(77.344), a.saturation_pressure(77.344, unit='bar'), a.saturation_pressure(77.344, unit='torr'))
b = pygaps.Adsorbate('nobackend', saturation_pressure=12345.0, molar_mass=10.)
tryit('fallback psat', lambda: (b.saturation_pressure(300), b.saturation_pressure(300, unit='kPa'), b.saturation_pressure(300, unit='kPa', calculate=False)))
tryit('fallback missing', lambda: b.liquid_density(300))
tryit('enthalpy_vaporisation user key', lambda: pygaps.Adsorbate('nb2', enthalpy_vaporisation=5.0).enthalpy_vaporisation(300))
tryit('rho consistency N2', lambda: (a.liquid_density(77.344)/ (a.liquid_molar_density(77.344)*a.molar_mass())-1, a.gas_density(77.344)/(a.gas_molar_density(77.344)*a.molar_mass())-1))
