import warnings, logging
warnings.filterwarnings('ignore')
import pygaps, numpy as np, pandas as pd, copy
logging.getLogger('pygaps').setLevel(logging.CRITICAL)
pygaps.logger.setLevel(logging.CRITICAL)
from pygaps.units.converter_mode import c_loading, c_pressure, c_material
from pygaps.utilities.exceptions import *

def mk(**kw):
    d = dict(pressure=[0.1,0.2,0.3,0.4,0.5], loading=[1,2,3,4,5.], material='M1', adsorbate='N2', temperature=77.344)
    d.update(kw)
    return pygaps.PointIsotherm(**d)

def tryit(label, f):
    try:
        r = f()
        print(label, '->', r)
    except Exception as e:
        print(label, 'RAISES', type(e).__name__, str(e)[:100].replace('\n',' '))

print("== C01 refusal kinds")
n2 = pygaps.Adsorbate.find('N2')
tryit('c_loading fraction->molar no material basis', lambda: c_loading(1,'fraction','molar',None,'mmol',n2,77))
tryit('c_loading fraction->fraction unit_to given', lambda: c_loading(1,'fraction','fraction',None,'mmol',n2,77))
tryit('c_pressure abs->abs unit None', lambda: c_pressure(1,'absolute','absolute','bar',None))
tryit('c_pressure abs->rel temp 0', lambda: c_pressure(1,'absolute','relative','bar',None,n2,0))
tryit('c_material mass->volume no density', lambda: c_material(1,'mass','volume','g','cm3',pygaps.Material('zz')))

print("== C02 label after omitted unit")
iso = mk(); iso.convert(pressure_mode='absolute'); print(iso.units)
iso = mk(); iso.convert(loading_basis='molar'); print(iso.units)
iso = mk(); iso.convert(material_basis='mass'); print(iso.units)
iso = mk(); iso.convert_temperature('C'); print(iso.units, iso.temperature, iso._temperature)
tryit('reconstruct after convert_temperature(C)', lambda: pygaps.PointIsotherm(pressure=[1,2],loading=[1,2], **iso.to_dict()).units)

print("== C02 partial failure in convert_material under fraction")
m = pygaps.Material('M2', density=2.0, molar_mass=100.0)
ads_nob = pygaps.Adsorbate('fakegas', molar_mass=30.0)
iso = pygaps.PointIsotherm(pressure=[0.1,0.2,0.3], loading=[0.01,0.02,0.03], material=m, adsorbate=ads_nob, temperature=300, loading_basis='fraction', loading_unit=None, material_basis='mass', material_unit='g')
before = iso.data_raw.copy(); ub = iso.units
tryit('convert_material to volume w/o liquid density', lambda: iso.convert_material(basis_to='volume', unit_to='cm3'))
print('data changed?', not before.equals(iso.data_raw), 'units changed?', ub != iso.units, iso.data_raw['loading'].tolist())
