import warnings, logging, time
warnings.filterwarnings('ignore')
import pygaps, numpy as np, pandas as pd
pygaps.logger.setLevel(logging.CRITICAL)
import pygaps.parsing as pgp, pygaps.characterisation as pgc, pygaps.iast as pgi
from scipy import constants
def tryit(label, f):
    t=time.time()
    try:
        r = f(); print(label, '->', r, f'[{time.time()-t:.2f}s]')
    except Exception as e:
        print(label, 'RAISES', type(e).__name__, str(e)[:200].replace('\n',' '))
base = dict(material='M1', adsorbate='N2', temperature=77.344, loading_basis='molar', loading_unit='mmol', material_basis='mass', material_unit='g', pressure_mode='absolute', pressure_unit='bar', temperature_unit='K')
p = np.linspace(0.02, 1.0, 30); lang = lambda p,K=4.,nm=3.: nm*K*p/(1+K*p)
# C12 point<->model
mi = pygaps.ModelIsotherm(pressure=p, loading=lang(p), model='Langmuir', comment='x', **base)
pi = pygaps.PointIsotherm.from_modelisotherm(mi)
print('from_model: on curve', float(np.max(np.abs(pi.loading()-mi.loading_at(pi.pressure())))), 'units same', pi.units==mi.units, 'props', pi.properties)
mi2 = pygaps.ModelIsotherm.from_pointisotherm(pi, model='Langmuir'); print('refit', {k: float(v) for k,v in mi2.model.params.items()})
# unit change equivariance
pi_k = pygaps.PointIsotherm(pressure=p, loading=lang(p), **base); pi_k.convert(pressure_unit='kPa', loading_unit='mol')
mk = pygaps.ModelIsotherm.from_pointisotherm(pi_k, model='Langmuir'); print('kPa/mol fit', {k: float(v) for k,v in mk.model.params.items()}, 'expected K', 4/100., 'nm', 3e-3)
# branch used
pp = np.concatenate([p, p[::-1][1:]]); ll = np.concatenate([lang(p), 1.2*lang(p[::-1][1:])])
pi2 = pygaps.PointIsotherm(pressure=pp, loading=ll, **base)
tryit('fit ads only', lambda: {k: round(float(v),6) for k,v in pygaps.ModelIsotherm.from_pointisotherm(pi2, model='Langmuir', branch='ads').model.params.items()})
tryit('fit des', lambda: {k: round(float(v),6) for k,v in pygaps.ModelIsotherm.from_pointisotherm(pi2, model='Langmuir', branch='des').model.params.items()})
# bounds
tryit('bounds', lambda: {k: round(float(v),6) for k,v in pygaps.ModelIsotherm(pressure=p, loading=lang(p), model='Langmuir', param_bounds={'K':(0,2.),'n_m':(0,10)}, **base).model.params.items()})
# C13 henry closed form, 3 comps, permutation
def hen(K, ads): return pygaps.ModelIsotherm(pressure=p, loading=K*p, model='Henry', **{**base,'adsorbate':ads})
h = [hen(2.,'N2'), hen(0.5,'CH4'), hen(5.,'CO2')]; pp3=[0.2,0.3,0.1]
tryit('iast henry 3', lambda: (pgi.iast_point(h, pp3), [2*.2,.5*.3,5*.1]))
tryit('iast henry perm', lambda: pgi.iast_point([h[2],h[0],h[1]], [0.1,0.2,0.3]))
tryit('fraction wrapper', lambda: (pgi.iast_point_fraction(h, [0.2,0.5,0.3], 2.0), pgi.iast_point(h, [0.4,1.0,0.6])))
tryit('svp', lambda: pgi.iast_binary_svp(h[:2], [0.3,0.7], [0.5,1.0])['selectivity'])
tryit('vle', lambda: (pgi.iast_binary_vle(h[:2], 1.0, npoints=3)['x'], pgi.iast_binary_vle(h[:2], 1.0, npoints=3)['y']))
# relative refused
tryit('iast relative', lambda: pgi.iast_point([pygaps.ModelIsotherm(pressure=p, loading=2*p, model='Henry', **{**base,'pressure_mode':'relative','pressure_unit':None}), h[1]],[0.1,0.2]))
# C16 BJH/DH zero thickness
prel = np.linspace(0.05,0.95,40); vol = np.cumsum(np.abs(np.sin(prel*5))+0.1)
iso = pygaps.PointIsotherm(pressure=prel, loading=vol, branch='ads', **{**base,'pressure_mode':'relative','pressure_unit':None,'loading_basis':'volume_liquid','loading_unit':'cm3'})
for m in ['pygaps-DH','BJH','DH']:
    def meso():
        r = pgc.psd_mesoporous(iso, psd_model=m, pore_geometry='cylinder', branch='ads', thickness_model='zero thickness', p_limits=(None,None))
        v = iso.loading(); return float(np.max(np.abs(r['pore_volumes']-np.diff(v)))), float(np.max(np.abs(r['pore_distribution']*np.diff(r['pore_widths'], prepend=np.nan)[...] - r['pore_volumes'])[1:])) if False else None, bool(np.all(np.diff(r['pore_widths'])>0))
    tryit('meso '+m, meso)
# C18 limits influence
iso2 = pygaps.PointIsotherm(pressure=np.logspace(-6,-0.5,40), loading=np.linspace(0.5,12,40), **{**base,'pressure_mode':'relative','pressure_unit':None})
r1 = pgc.psd_dft(iso2, p_limits=(1e-5, 1e-2), bspline_order=0)
l2 = iso2.loading().copy(); l2[-3:] *= 2; iso3 = pygaps.PointIsotherm(pressure=iso2.pressure(), loading=l2, **{**base,'pressure_mode':'relative','pressure_unit':None})
r2 = pgc.psd_dft(iso3, p_limits=(1e-5, 1e-2), bspline_order=0); print('dft outside-limits influence', float(np.max(np.abs(r1['pore_distribution']-r2['pore_distribution']))), 'nonneg', bool(np.all(r1['pore_distribution']>=0)), 'cum mono', bool(np.all(np.diff(r1['pore_volume_cumulative'])>=-1e-15)))
tryit('dft out of kernel range', lambda: pgc.psd_dft(pygaps.PointIsotherm(pressure=[1e-9,1e-8,1e-7,1e-6], loading=[1,2,3,4.], **{**base,'pressure_mode':'relative','pressure_unit':None})))
