import warnings, logging, itertools, math, time, random, collections
warnings.filterwarnings('ignore')
import pygaps, numpy as np, pandas as pd
pygaps.logger.setLevel(logging.CRITICAL)
exec(open('oracle_c01.py').read().split("print(len(PRESS)")[0])   # reuse spec defs
class StubAds(pygaps.Adsorbate):
    def saturation_pressure(s, temp, unit=None, calculate=True): return A.ps/(PA[unit] if unit else 1)
    def molar_mass(s, calculate=True): return A.M
    def liquid_density(s, temp, calculate=True): return A.rl
    def gas_density(s, temp, calculate=True): return A.rg
    def liquid_molar_density(s, temp, calculate=True): return A.rl/A.M
    def gas_molar_density(s, temp, calculate=True): return A.rg/A.M
StubAds('stubgas', store=True); pygaps.Material('stubmat', density=Mt.density, molar_mass=Mt.molar_mass, store=True)
P0=[0.1,0.2,0.3]; L0=[1.0,2.0,3.0]
def mk(pm,pu,lb,lu,mb,mu):
    return pygaps.PointIsotherm(pressure=list(P0), loading=list(L0), material='stubmat', adsorbate='stubgas', temperature=77.0,
        pressure_mode=pm, pressure_unit=pu, loading_basis=lb, loading_unit=lu, material_basis=mb, material_unit=mu, temperature_unit='K')
def valid(iso):
    try:
        pygaps.PointIsotherm(pressure=[1,2], loading=[1,2], **iso.to_dict()); return True
    except Exception as e: return False
def direct(iso0lab, lab):
    (pm0,pu0,lb0,lu0,mb0,mu0),(pm,pu,lb,lu,mb,mu) = iso0lab, lab
    p = [pa_to_p(p_to_pa(v,pm0,pu0),pm,pu) for v in P0]
    # canonical mol per gram
    l = [v*l_scale(lb0,lu0,mb0,mu0)/mat_g(mb0,mu0) * mat_g(mb,mu)/l_scale(lb,lu,mb,mu) for v in L0]
    return p,l
def labels(iso): u=iso.units; return (u['pressure_mode'],u['pressure_unit'],u['loading_basis'],u['loading_unit'],u['material_basis'],u['material_unit'])
rng = random.Random(1)
states = list(itertools.product(PRESS, LOAD, MATS))
rng.shuffle(states); states = states[:400]
ARG_MODE=[None,'','absolute','relative','relative%','bogus']; ARG_PU=[None,'','bar','Pa','torr','bogus']
ARG_LB=[None,'molar','mass','volume_gas','volume_liquid','fraction','percent','bogus']; ARG_LU=[None,'mmol','g','cm3','L(STP)','bogus']
ARG_MB=[None,'mass','volume','molar','bogus']; ARG_MU=[None,'g','kg','cm3','mol','bogus']
issues=collections.Counter(); examples={}; n=0; t0=time.time()
def check(tag, st, call, args):
    global n
    (pm,pu),(lb,lu),(mb,mu) = st
    iso = mk(pm,pu,lb,lu,mb,mu); lab0 = labels(iso); d0 = iso.data_raw.copy()
    n+=1
    try:
        getattr(iso, call)(**args); err=None
    except Exception as e: err=type(e).__name__
    lab1 = labels(iso)
    key=None
    if err:
        if lab1!=lab0 or not d0.equals(iso.data_raw): key=(tag,'refused-but-changed',err)
    else:
        if not valid(iso): key=(tag,'invalid-labels')
        else:
            try:
                p,l = direct(lab0, lab1)
                if not (np.allclose(p, iso.data_raw['pressure'], rtol=1e-11, atol=0) and np.allclose(l, iso.data_raw['loading'], rtol=1e-11, atol=0)):
                    key=(tag,'data!=direct')
            except Exception as e: key=(tag,'spec-exc',type(e).__name__)
    if key:
        issues[key]+=1
        examples.setdefault(key, (lab0, args, lab1, err))
for st in states:
    for m,u in itertools.product(ARG_MODE, ARG_PU): check('convert_pressure', st, 'convert_pressure', dict(mode_to=m, unit_to=u))
    for b,u in itertools.product(ARG_LB, ARG_LU): check('convert_loading', st, 'convert_loading', dict(basis_to=b, unit_to=u))
    for b,u in itertools.product(ARG_MB, ARG_MU): check('convert_material', st, 'convert_material', dict(basis_to=b, unit_to=u))
print('calls', n, 'time', round(time.time()-t0,1))
for k,v in sorted(issues.items(), key=lambda x:-x[1]): print(v, k, examples[k])
