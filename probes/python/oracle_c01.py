import warnings, logging, itertools, math, time
warnings.filterwarnings('ignore')
import pygaps, numpy as np
pygaps.logger.setLevel(logging.CRITICAL)
from pygaps.units.converter_mode import c_pressure, c_loading, c_material, c_temperature
from pygaps.utilities.exceptions import ParameterError, pgError
# ---- independent spec (SI content written by hand)
PA = {"Pa":1,"kPa":1e3,"MPa":1e6,"mbar":100,"bar":1e5,"atm":101325,"mmHg":133.322,"torr":133.322}
MOL = {"mmol":1e-3,"mol":1,"kmol":1e3,"cm3(STP)":4.461e-5,"mL(STP)":4.461e-5,"cc(STP)":4.461e-5,"L(STP)":4.461e-2}
G = {'amu':1.66054e-27,'mg':1e-3,'cg':1e-2,'dg':0.1,'g':1,'kg':1e3}
CM3 = {'cm3':1,'mL':1,'cc':1,'dm3':1e3,'L':1e3,'m3':1e6}
class Ads:  # stub adsorbate with consistent properties
    def __init__(s, psat=123456.0, M=28.5, rl=0.81, rg=0.0047): s.ps, s.M, s.rl, s.rg = psat, M, rl, rg
    def saturation_pressure(s, temp, unit=None): return s.ps/(PA[unit] if unit else 1)
    def molar_mass(s): return s.M
    def liquid_density(s, temp): return s.rl
    def gas_density(s, temp): return s.rg
    def liquid_molar_density(s, temp): return s.rl/s.M
    def gas_molar_density(s, temp): return s.rg/s.M
class Mat:
    density=2.3; molar_mass=321.0
A=Ads(); Mt=Mat()
def p_to_pa(v, mode, unit):
    if mode=='absolute': return v*PA[unit]
    if mode=='relative': return v*A.ps
    return v*A.ps/100
def pa_to_p(x, mode, unit):
    if mode=='absolute': return x/PA[unit]
    if mode=='relative': return x/A.ps
    return x/A.ps*100
def amt_mol(basis, unit):  # mol per one unit of (basis,unit)
    if basis=='molar': return MOL[unit]
    if basis=='mass': return G[unit]/A.M
    if basis=='volume_gas': return CM3[unit]*A.rg/A.M
    if basis=='volume_liquid': return CM3[unit]*A.rl/A.M
def mat_g(basis, unit):   # grams of material per one material unit
    if basis=='mass': return G[unit]
    if basis=='volume': return CM3[unit]*Mt.density
    if basis=='molar': return MOL[unit]*Mt.molar_mass
def l_scale(lb, lu, mb, mu):   # mol adsorbate per (material unit) represented by value 1
    if lb in ('fraction','percent'):
        b = 'volume_liquid' if mb=='volume' else mb
        return amt_mol(b, mu)*(0.01 if lb=='percent' else 1)
    return amt_mol(lb, lu)
PRESS = [('absolute',u) for u in PA]+[('relative',None),('relative%',None)]
LOAD = [('molar',u) for u in MOL]+[('mass',u) for u in G]+[('volume_gas',u) for u in CM3]+[('volume_liquid',u) for u in CM3]+[('fraction',None),('percent',None)]
MATS = [('mass',u) for u in G]+[('volume',u) for u in CM3]+[('molar',u) for u in MOL]
print(len(PRESS), len(LOAD), len(MATS))
def close(a,b): return abs(a-b) <= 1e-12*max(abs(a),abs(b))
bad=[]; n=0; t0=time.time()
for (mf,uf),(mt,ut) in itertools.product(PRESS,PRESS):
    for v in (1.0, 0.37, 250.0):
        n+=1
        try: got = c_pressure(v, mf, mt, uf, ut, A, 77.0)
        except Exception as e: bad.append(('P',mf,uf,mt,ut,type(e).__name__)); continue
        exp = pa_to_p(p_to_pa(v,mf,uf),mt,ut)
        if not close(got,exp): bad.append(('P',mf,uf,mt,ut,got,exp))
for (bf,uf),(bt,ut) in itertools.product(LOAD,LOAD):
    mats = MATS if (bf in ('fraction','percent') or bt in ('fraction','percent')) else [('mass','g')]
    for (mb,mu) in mats:
        v=0.73; n+=1
        try: got = c_loading(v, bf, bt, uf, ut, A, 77.0, mb, mu)
        except Exception as e: bad.append(('L',bf,uf,bt,ut,mb,mu,type(e).__name__, str(e)[:40])); continue
        exp = v*l_scale(bf,uf,mb,mu)/l_scale(bt,ut,mb,mu)
        if not close(got,exp): bad.append(('L',bf,uf,bt,ut,mb,mu,got,exp))
for (bf,uf),(bt,ut) in itertools.product(MATS,MATS):
    v=0.73; n+=1
    try: got = c_material(v, bf, bt, uf, ut, Mt)
    except Exception as e: bad.append(('M',bf,uf,bt,ut,type(e).__name__)); continue
    exp = v*mat_g(bt,ut)/mat_g(bf,uf)   # per-material quantity
    if not close(got,exp): bad.append(('M',bf,uf,bt,ut,got,exp))
print('cases', n, 'bad', len(bad), 'time', round(time.time()-t0,2))
for b in bad[:30]: print(b)
