import warnings, logging
warnings.filterwarnings('ignore')
import pygaps, numpy as np
pygaps.logger.setLevel(logging.CRITICAL)
import pygaps.characterisation as pgc
base = dict(material='M1', adsorbate='CO2', loading_basis='molar', loading_unit='mmol', material_basis='mass', material_unit='g', pressure_mode='absolute', pressure_unit='bar', temperature_unit='K')
Ts = [250., 270., 290.]; dH = 25e3; R=8.314462618
def mk(T, mode, unit=None):
    K = 1e-5*np.exp(dH/R/T); p = np.logspace(-3, 1, 60); n = 3*K*p/(1+K*p)
    iso = pygaps.PointIsotherm(pressure=p, loading=n, temperature=T, **base)
    if mode or unit: iso.convert_pressure(mode_to=mode, unit_to=unit)
    return iso
for mode, unit in [(None,None),(None,'kPa'),('relative',None)]:
    isos=[mk(T,mode,unit) for T in Ts]
    lo = max(min(i.loading()) for i in isos)*1.1; hi = min(max(i.loading()) for i in isos)*0.9
    r = pgc.isosteric_enthalpy(isos, loading_points=list(np.linspace(lo,hi,4)))
    print(mode, unit, np.round(r['isosteric_enthalpy'],3))
print('dHvap CO2 270K', pygaps.Adsorbate.find('CO2').enthalpy_vaporisation(270))
