import warnings, logging, random, collections, json, tempfile, os, math
warnings.filterwarnings('ignore')
import pygaps, numpy as np, pandas as pd
pygaps.logger.setLevel(logging.CRITICAL)
import pygaps.parsing as pgp
rng = random.Random(5)
td = tempfile.mkdtemp(); res=collections.Counter(); ex={}
base = dict(material='M1', adsorbate='N2', temperature=77.344, loading_basis='molar', loading_unit='mmol', material_basis='mass', material_unit='g', pressure_mode='absolute', pressure_unit='bar', temperature_unit='K')
vals = {'text':'hello world', 'int':5, 'negint':-3, 'zero':0, 'float':2.5, 'negfloat':-1.25e-7, 'big':1e22, 'true':True, 'false':False, 'intlist':[1,2,3], 'floatlist':[1.5,2.5], 'textlist':['a','b'], 'padded':' x ', 'numtext':'12', 'nonetext':'None', 'comma':'a,b', 'quote':"it's", 'empty':'', 'none':None, 'unicode':'ünï 中'}
def mk(kind, extra):
    if kind=='base': return pygaps.core.baseisotherm.BaseIsotherm(**base, **extra)
    if kind=='point': return pygaps.PointIsotherm(pressure=[0.1,0.2,0.3,0.2], loading=[1.,2.,3.,2.5], **base, **extra)
    from pygaps.modelling import get_isotherm_model
    return pygaps.ModelIsotherm(model=get_isotherm_model('Langmuir', parameters={'K':2.0,'n_m':3.0}, pressure_range=(0.01,1.0), loading_range=(0.0,3.0), rmse=1e-3), **base, **extra)
for fmt in ['csv','xl','aif']:
    for kind in ['base','point','model']:
        for name,v in vals.items():
            iso = mk(kind, {'meta': v})
            try:
                if fmt=='csv': back = pgp.isotherm_from_csv(iso.to_csv())
                elif fmt=='aif': back = pgp.isotherm_from_aif(iso.to_aif())
                else:
                    pth=os.path.join(td,'a.xls'); iso.to_xl(pth); back = pgp.isotherm_from_xl(pth)
            except Exception as e:
                res[(fmt,kind,name,'EXC '+type(e).__name__)]+=1; continue
            got = back.properties.get('meta','<missing>')
            same = (type(got)==type(v) and got==v)
            res[(fmt,kind,name,'same' if same else f'CHANGED->{got!r}', 'eq' if back==iso else 'NEQ')]+=1
import itertools
for fmt in ['csv','xl','aif']:
    for kind in ['base','point','model']:
        print(fmt, kind, '|', ' ; '.join(f"{k[2]}:{k[3]}{'' if len(k)<5 else '/'+k[4]}" for k in res if k[0]==fmt and k[1]==kind))
