import warnings, logging, glob
warnings.filterwarnings('ignore')
import pygaps, numpy as np
pygaps.logger.setLevel(logging.CRITICAL)
import pygaps.parsing as pgp, pygaps.characterisation as pgc
def clone(iso): return pygaps.PointIsotherm(isotherm_data=iso.data_raw.copy(), pressure_key=iso.pressure_key, loading_key=iso.loading_key, **iso.to_dict())
files = sorted(glob.glob('/repo/docs/examples/data/characterisation/*.json'))
convs = [dict(pressure_unit='kPa', pressure_mode='absolute'), dict(pressure_mode='relative%'), dict(loading_basis='mass', loading_unit='mg'), dict(loading_basis='volume_gas', loading_unit='L')]
for f in files:
    iso = pgp.isotherm_from_json(f); base = pgc.psd_dft(iso)
    for c in convs:
        j = clone(iso); j.convert(**c); r = pgc.psd_dft(j)
        nw = lambda k: float(np.max(np.abs(np.asarray(base[k])-np.asarray(r[k])))/np.max(np.abs(base[k])))
        # input difference after round trip
        din = float(np.max(np.abs(j.loading(loading_basis='molar', loading_unit='mmol')/iso.loading()-1)))
        print(f.split('/')[-1][:10], list(c.values()), 'dist %.1e cum %.1e fit %.1e'%(nw('pore_distribution'), nw('pore_volume_cumulative'), nw('kernel_loading')), 'input rel diff %.1e'%din)
