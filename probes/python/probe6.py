import warnings, logging
warnings.filterwarnings('ignore')
import pygaps, numpy as np, pandas as pd, copy
pygaps.logger.setLevel(logging.CRITICAL)
import pygaps.parsing as pgp, pygaps.characterisation as pgc
def tryit(label, f):
    try:
        r = f(); print(label, '->', r)
    except Exception as e:
        print(label, 'RAISES', type(e).__name__, str(e)[:150].replace('\n',' '))
base = dict(material='M1', adsorbate='N2', temperature=77.344, loading_basis='molar', loading_unit='mmol', material_basis='mass', material_unit='g', pressure_mode='absolute', pressure_unit='bar', temperature_unit='K')
# synthetic: reference = BET-like isotherm, sample = 2 * reference  -> alpha_s slope should give area = 2 * ref area
p0 = pygaps.Adsorbate.find('N2').saturation_pressure(77.344, unit='bar'); print('p0 bar', p0)
prel = np.linspace(0.01, 0.9, 60)
def bet(p, nm=1.0, C=100.): return nm*C*p/((1-p)*(1-p+C*p))
ref = pygaps.PointIsotherm(pressure=prel*p0, loading=bet(prel), **base)
smp = pygaps.PointIsotherm(pressure=prel*p0, loading=2*bet(prel), **{**base,'material':'M2'})
def run(s, r):
    res = pgc.alpha_s(s, r, reference_area='BET', t_limits=(0.5, 1.5))
    return [round(x['area'],4) for x in res['results']]
tryit('bar/bar', lambda: run(smp, ref))
clone=lambda i: pygaps.PointIsotherm(isotherm_data=i.data_raw.copy(), pressure_key=i.pressure_key, loading_key=i.loading_key, **i.to_dict())
s2 = clone(smp); r2 = clone(ref); s2.convert_pressure(unit_to='kPa'); r2.convert_pressure(unit_to='kPa')
tryit('kPa/kPa', lambda: run(s2, r2))
s3 = clone(smp); s3.convert_pressure(mode_to='relative'); r3 = clone(ref); r3.convert_pressure(mode_to='relative')
tryit('rel/rel', lambda: run(s3, r3))
tryit('rel sample / bar ref', lambda: run(s3, ref))
# S8 whittaker mutates
from pygaps.characterisation.enth_sorp_whittaker import enthalpy_sorption_whittaker
iso = pygaps.PointIsotherm(pressure=np.linspace(0.01,1,30), loading=3*5*np.linspace(0.01,1,30)/(1+5*np.linspace(0.01,1,30)), **{**base,'adsorbate':'CO2','temperature':298.15})
u0 = iso.units.copy(); id0 = iso.iso_id
tryit('whittaker', lambda: len(enthalpy_sorption_whittaker(iso, model='Langmuir')['loading']))
print('units before/after', u0['pressure_unit'], iso.units['pressure_unit'], id0 == iso.iso_id)
# isosteric relative vs absolute
Ts = [280., 300., 320.]; dH = 25e3; R=8.314462618
def mk(T, mode):
    K = 1e-3*np.exp(dH/R/T); p = np.logspace(-2, 1, 40); n = 3*K*p/(1+K*p)
    iso = pygaps.PointIsotherm(pressure=p, loading=n, **{**base,'adsorbate':'CO2','temperature':T})
    if mode: iso.convert_pressure(mode_to=mode)
    return iso
for mode in [None,'relative']:
    tryit(f'isosteric {mode}', lambda: np.round(pgc.isosteric_enthalpy([mk(T,mode) for T in Ts], loading_points=[0.5,1.0,1.5])['isosteric_enthalpy'],3))
