import warnings, logging, random, collections, json, tempfile, os, sqlite3, types, shutil
warnings.filterwarnings('ignore')
import pygaps, numpy as np, pandas as pd
pygaps.logger.setLevel(logging.CRITICAL)
import pygaps.parsing.sqlite as pgsql
from pygaps.utilities.sqlite_db_creator import db_create
from pygaps.utilities.exceptions import ParsingError
real = sqlite3
class Fault: k=None; kind=None; count=0; log=[]
class FCursor(real.Cursor):
    def execute(self, sql, *a):
        if not sql.startswith('PRAGMA'):
            Fault.count += 1; Fault.log.append(sql.split()[0]+' '+sql.split('"')[1] if '"' in sql else sql[:30])
            if Fault.k is not None and Fault.count == Fault.k:
                if Fault.kind=='exit': os._exit(7)
                raise getattr(real, Fault.kind)('injected')
        return super().execute(sql, *a)
class FConn(real.Connection):
    def cursor(self, *a, **k): return super().cursor(FCursor)
    def commit(self):
        if Fault.kind=='exit-before-commit' : os._exit(7)
        super().commit()
        if Fault.kind=='exit-after-commit': os._exit(7)
proxy = types.ModuleType('sqlite3proxy')
for n in dir(real): setattr(proxy, n, getattr(real, n))
proxy.connect = lambda path, *a, **k: real.connect(path, *a, factory=FConn, **k)
pgsql.sqlite3 = proxy
td = tempfile.mkdtemp(); tmpl = os.path.join(td,'t.db'); db_create(tmpl)
def dump(path):
    c = real.connect(path); out={}
    for t in ['materials','material_properties','material_properties_type','adsorbates','adsorbate_properties','isotherms','isotherm_properties','isotherm_data']:
        out[t] = sorted(map(tuple, c.execute(f'select * from {t}').fetchall()), key=str)
    fk = c.execute('PRAGMA foreign_key_check').fetchall(); ic = c.execute('PRAGMA integrity_check').fetchall(); c.close()
    return out, fk, ic
base = dict(temperature=77.344, loading_basis='molar', loading_unit='mmol', material_basis='mass', material_unit='g', pressure_mode='absolute', pressure_unit='bar', temperature_unit='K')
def mkiso(): return pygaps.PointIsotherm(pressure=[1.,2.,3.], loading=[1.,2.,3.], material={'name':'MX','density':2.0,'poresize':1.1}, adsorbate='newgas', comment='c', **base)
# count statements
db = os.path.join(td,'a.db'); shutil.copy(tmpl, db)
Fault.k=None; Fault.count=0; Fault.log=[]
pygaps.MATERIAL_LIST.clear()
pgsql.isotherm_to_db(mkiso(), db_path=db, verbose=False); nst = Fault.count; after_full,_,_ = dump(db)
print('statements', nst, Fault.log)
before,_,_ = dump(tmpl)
res=collections.Counter()
for kind in ['IntegrityError','InterfaceError','OperationalError','exit','exit-before-commit','exit-after-commit']:
    ks = range(1, nst+1) if kind in ('IntegrityError','InterfaceError','OperationalError','exit') else [None]
    for k in ks:
        shutil.copy(tmpl, db)
        pygaps.MATERIAL_LIST[:] = [m for m in pygaps.MATERIAL_LIST if m.name!='MX']; pygaps.ADSORBATE_LIST[:] = [a for a in pygaps.ADSORBATE_LIST if a.name!='newgas']
        pid = os.fork()
        if pid==0:
            Fault.k=k; Fault.kind=kind; Fault.count=0
            try: pgsql.isotherm_to_db(mkiso(), db_path=db, verbose=False); code=0
            except ParsingError: code=3
            except Exception as e: code=4
            os._exit(code)
        _, status = os.waitpid(pid, 0); code = os.waitstatus_to_exitcode(status)
        st, fk, ic = dump(db)
        which = 'before' if st==before else ('after' if st==after_full else 'PARTIAL')
        res[(kind, code, which, 'fk' if fk else 'nofk', ic[0][0])]+=1
for k,v in sorted(res.items()): print(v,k)
shutil.rmtree(td)
