import warnings, logging, time, random, collections, math
warnings.filterwarnings('ignore')
import pygaps, numpy as np
pygaps.logger.setLevel(logging.CRITICAL)
import pygaps.characterisation as pgc
from scipy import constants, integrate
rng = random.Random(4)
base = dict(material='M1', adsorbate='N2', temperature=77.344, loading_basis='molar', loading_unit='mmol', material_basis='mass', material_unit='g', pressure_mode='absolute', pressure_unit='bar', temperature_unit='K')
# ---- C11 point isotherm: fold vs integral of interpolant
worst=0
for it in range(200):
    n = rng.randint(2,25); p = np.sort(np.array([rng.uniform(0.01,5) for _ in range(n)])); 
    if np.min(np.diff(p))<1e-6: continue
    l = np.cumsum([rng.uniform(0,1) for _ in range(n)])+rng.uniform(0,1)
    iso = pygaps.PointIsotherm(pressure=p, loading=l, branch='ads', **base)
    for q in [p[0]*0.5, p[0], (p[0]+p[-1])/2, p[-1], *(rng.uniform(p[0],p[-1]) for _ in range(3))]:
        got = float(iso.spreading_pressure_at(q))
        f = lambda x: (l[0]/p[0]*x if x<=p[0] else float(np.interp(x,p,l)))/x
        pts = [pp for pp in p if pp<q]
        ref = 0; edges=[0]+pts+[q]
        for a,b in zip(edges[:-1],edges[1:]):
            if b>a: ref += integrate.quad(f,a,b,epsabs=1e-13,epsrel=1e-13)[0]
        worst=max(worst, abs(got-ref)/abs(ref))
print('C11 point worst rel', worst)
# ---- C16 widths = 2(rk+t), Kelvin
from pygaps.characterisation.models_kelvin import kelvin_radius, get_meniscus_geometry
from pygaps.characterisation.models_thickness import thickness_harkins_jura, thickness_halsey
ads = pygaps.Adsorbate.find('N2'); T=77.344
prel = np.linspace(0.1,0.95,30); vol = np.cumsum(np.abs(np.sin(prel*5))+0.1)*1e-2
iso = pygaps.PointIsotherm(pressure=prel, loading=vol, branch='ads', **{**base,'pressure_mode':'relative','pressure_unit':None,'loading_basis':'volume_liquid','loading_unit':'cm3'})
for geom in ['slit','cylinder','sphere']:
    for tm,tf in [('Harkins/Jura',thickness_harkins_jura),('Halsey',thickness_halsey)]:
        r = pgc.psd_mesoporous(iso, psd_model='pygaps-DH', pore_geometry=geom, branch='ads', thickness_model=tm, p_limits=(None,None))
        mg = get_meniscus_geometry('ads', geom)
        rk = kelvin_radius(prel, mg, T, ads.liquid_density(T), ads.molar_mass(), ads.surface_tension(T))
        gf = {'cylindrical':2.0,'hemispherical':1.0,'hemicylindrical':0.5}[mg]
        rk_spec = -2*ads.surface_tension(T)*1e-3*(ads.molar_mass()/ads.liquid_density(T))*1e-6/(gf*constants.gas_constant*T*np.log(prel))*1e9
        w = 2*(rk+tf(prel))
        print('C16', geom, tm, 'widths err %.1e'%np.max(np.abs(r['pore_widths']-w[:-1])), 'kelvin spec err %.1e'%np.max(np.abs(rk/rk_spec-1)), 'dist*dw=vol err %.1e'%np.max(np.abs(r['pore_distribution']*np.diff(w) - r['pore_volumes'])), 'cum end %.1e'%abs(r['pore_volume_cumulative'][-1]-vol[-1]))
# ---- C17 residuals exp(phi(L)) = p for all models x geometries
iso2 = pygaps.PointIsotherm(pressure=np.logspace(-6,-1.2,18), loading=np.linspace(0.5,8,18), **{**base,'pressure_mode':'relative','pressure_unit':None})
for model in ['HK','HK-CY','RY','RY-CY']:
    for geom in ['slit','cylinder','sphere']:
        t=time.time()
        try:
            r = pgc.psd_microporous(iso2, psd_model=model, pore_geometry=geom, p_limits=(None,None))
            w = r['pore_widths']; print('C17', model, geom, 'n', len(w), 'mono', bool(np.all(np.diff(w)>=-1e-9)), 'cum==liq vol', float(np.max(np.abs(r['pore_volume_cumulative'] - iso2.loading()[1:len(w)+1]*ads.molar_mass()/ads.liquid_density(T)/1000))), '[%.1fs]'%(time.time()-t))
        except Exception as e: print('C17', model, geom, 'EXC', type(e).__name__, str(e)[:80])
# ---- C19 whittaker closed form
from pygaps.characterisation.enth_sorp_whittaker import enthalpy_sorption_whittaker
from pygaps.modelling import get_isotherm_model
co2 = pygaps.Adsorbate.find('CO2'); Tw=273.15
for name,pr in [('Langmuir',{'K':np.float64(2e-5),'n_m':np.float64(5.0)}),('Toth',{'K':np.float64(2e-5),'n_m':np.float64(5.0),'t':np.float64(0.6)})]:
    m = get_isotherm_model(name, parameters=pr, pressure_range=(0.0,1e6), loading_range=(0.1,4.0))
    mi = pygaps.ModelIsotherm(model=m, **{**base,'adsorbate':'CO2','temperature':Tw,'pressure_unit':'Pa'})
    r = enthalpy_sorption_whittaker(mi, loading=[0.5,1.0,2.0,3.0])
    RT=constants.R*Tw; t = pr.get('t',1.0); psat=co2.saturation_pressure(Tw); b=1/pr['K']**t
    exp=[]
    for n in r['loading']:
        p = float(mi.pressure_at(n)); p=max(p, co2.p_triple()); hv=co2.enthalpy_vaporisation(press=p)*1000
        th=(n/pr['n_m'])**t; lam = RT*math.log(psat/b**(1/t)*(th/(1-th))**((t-1)/t)); exp.append((lam+hv+RT)/1000)
    print('C19 whittaker', name, r['loading'], np.max(np.abs(np.array(r['enthalpy_sorption'])-np.array(exp))))
