import warnings, logging, time
warnings.filterwarnings('ignore')
import pygaps, numpy as np, pandas as pd
pygaps.logger.setLevel(logging.CRITICAL)
import pygaps.parsing as pgp, pygaps.characterisation as pgc, pygaps.iast as pgi
def tryit(label, f):
    t=time.time()
    try:
        r = f(); print(label, '->', r, f'[{time.time()-t:.2f}s]')
    except Exception as e:
        print(label, 'RAISES', type(e).__name__, str(e)[:160].replace('\n',' '))
base = dict(material='M1', adsorbate='N2', temperature=77.344, loading_basis='molar', loading_unit='mmol', material_basis='mass', material_unit='g', pressure_mode='absolute', pressure_unit='bar', temperature_unit='K')
p = np.linspace(0.02, 1.0, 30)
gen = {'Henry': lambda p: 2*p, 'Langmuir': lambda p: 3*4*p/(1+4*p), 'Toth': lambda p: 3*2*p/(1+(2*p)**0.7)**(1/0.7), 'Freundlich': lambda p: 2*p**(1/1.7)}
for name, f in gen.items():
    def run():
        mi = pygaps.ModelIsotherm(pressure=p, loading=f(p), model=name, **base)
        res = mi.model.loading(p)-f(p)
        return {k: round(float(v),5) for k,v in mi.model.params.items()}, float(mi.model.rmse), float(np.sqrt(np.mean(res**2))/(mi.model.loading_range[1]-mi.model.loading_range[0]))
    tryit('fit '+name, run)
tryit('guess', lambda: pygaps.ModelIsotherm.guess(pressure=p, loading=gen['Langmuir'](p), models=['Henry','Langmuir','Toth'], **base).model.name)
# IAST
m1 = pygaps.ModelIsotherm(pressure=p, loading=gen['Langmuir'](p), model='Langmuir', **base)
m2 = pygaps.ModelIsotherm(pressure=p, loading=3*1*p/(1+1*p), model='Langmuir', **{**base,'adsorbate':'CH4'})
tryit('iast langmuir eqcap', lambda: (pgi.iast_point([m1,m2],[0.3,0.5]), [3*4*0.3/(1+4*0.3+0.5), 3*0.5/(1+1.2+0.5)]))
pi1 = pygaps.PointIsotherm(pressure=p, loading=gen['Langmuir'](p), **base); pi2 = pygaps.PointIsotherm(pressure=p, loading=3*p/(1+p), **{**base,'adsorbate':'CH4'})
tryit('iast point', lambda: pgi.iast_point([pi1,pi2],[0.1,0.2]))
tryit('reverse iast', lambda: pgi.reverse_iast([m1,m2],[0.6,0.4],0.8))
# meso
prel = np.linspace(0.05,0.95,40); vol = np.cumsum(np.abs(np.sin(prel*5))+0.1)
iso = pygaps.PointIsotherm(pressure=prel, loading=vol, branch='ads', **{**base,'pressure_mode':'relative','pressure_unit':None,'loading_basis':'volume_liquid','loading_unit':'cm3'})
def meso():
    r = pgc.psd_mesoporous(iso, psd_model='pygaps-DH', pore_geometry='cylinder', branch='ads', thickness_model='zero thickness', p_limits=(None,None))
    v = iso.loading(); return len(r['pore_widths']), float(sum(r['pore_volumes'])), float(v[-1]-v[0]), float(r['pore_volume_cumulative'][-1]), r['limits']
tryit('meso zero thickness', meso)
# micro
iso2 = pygaps.PointIsotherm(pressure=np.logspace(-6,-1,25), loading=np.linspace(0.5,8,25), **{**base,'pressure_mode':'relative','pressure_unit':None})
tryit('HK slit', lambda: np.round(pgc.psd_microporous(iso2, psd_model='HK', pore_geometry='slit')['pore_widths'][:4],4))
tryit('RY cyl', lambda: np.round(pgc.psd_microporous(iso2, psd_model='RY', pore_geometry='cylinder')['pore_widths'][:4],4))
# kernel
tryit('dft', lambda: {k:(np.asarray(v).shape if hasattr(v,'__len__') else v) for k,v in pgc.psd_dft(iso2, bspline_order=0).items()})
# parsers
for fmt in ['csv','aif']:
    tryit('roundtrip '+fmt, lambda: getattr(pgp,'isotherm_from_'+fmt)(getattr(pi1,'to_'+fmt)())==pi1)
import tempfile, os; td=tempfile.mkdtemp()
tryit('roundtrip xl', lambda: (pi1.to_xl(os.path.join(td,'a.xls')), pgp.isotherm_from_xl(os.path.join(td,'a.xls'))==pi1)[1])
