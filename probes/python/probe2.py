import warnings, logging
warnings.filterwarnings('ignore')
import pygaps, numpy as np, pandas as pd, copy
pygaps.logger.setLevel(logging.CRITICAL)
from pygaps.utilities.exceptions import *
def tryit(label, f):
    try:
        r = f()
        print(label, '->', r)
    except Exception as e:
        print(label, 'RAISES', type(e).__name__, str(e)[:100].replace('\n',' '))

print("== C02 partial failure in convert_material under fraction")
m = pygaps.Material('M2', density=2.0, molar_mass=100.0, store=True)
ads_nob = pygaps.Adsorbate('fakegas', molar_mass=30.0, store=True)
iso = pygaps.PointIsotherm(pressure=[0.1,0.2,0.3], loading=[0.01,0.02,0.03], material='M2', adsorbate='fakegas', temperature=300, loading_basis='fraction', loading_unit=None, material_basis='mass', material_unit='g', pressure_mode='absolute', pressure_unit='bar', temperature_unit='K')
before = iso.data_raw.copy(); ub = iso.units
tryit('convert_material to volume w/o liquid density', lambda: iso.convert_material(basis_to='volume', unit_to='cm3'))
print('data changed?', not before.equals(iso.data_raw), 'units changed?', ub != iso.units, iso.data_raw['loading'].tolist())

print("== C03 accessor vs permanent (stored fraction, material+loading change)")
def mkfrac():
    return pygaps.PointIsotherm(pressure=[0.1,0.2,0.3], loading=[0.01,0.02,0.03], material='M2', adsorbate='N2', temperature=77.344, loading_basis='fraction', loading_unit=None, material_basis='mass', material_unit='g', pressure_mode='absolute', pressure_unit='bar', temperature_unit='K')
a = mkfrac(); acc = a.loading(loading_basis='molar', loading_unit='mmol', material_basis='volume', material_unit='cm3')
b = mkfrac(); b.convert(loading_basis='molar', loading_unit='mmol', material_basis='volume', material_unit='cm3'); print(acc, b.loading(), b.units)
print("== C03 loading_at molar->fraction w/ material change")
def mkmol():
    return pygaps.PointIsotherm(pressure=[0.1,0.2,0.3], loading=[1,2,3.], material='M2', adsorbate='N2', temperature=77.344, loading_basis='molar', loading_unit='mmol', material_basis='mass', material_unit='g', pressure_mode='absolute', pressure_unit='bar', temperature_unit='K')
a = mkmol(); la = a.loading_at(0.2, loading_basis='fraction', material_basis='volume', material_unit='cm3'); l2 = a.loading(loading_basis='fraction', material_basis='volume', material_unit='cm3')
b = mkmol(); b.convert(material_basis='volume', material_unit='cm3'); b.convert(loading_basis='fraction'); print(la, l2, b.loading(), b.loading_at(0.2))

print("== C04 spreading pressure history dependence")
a = mkmol()
tryit('fresh below range', lambda: a.spreading_pressure_at(0.05))
tryit('fresh above range', lambda: a.spreading_pressure_at(0.5))
a.loading_at(0.2)
tryit('after loading_at below range', lambda: a.spreading_pressure_at(0.05))
tryit('after loading_at above range', lambda: a.spreading_pressure_at(0.5))
tryit('after loading_at above range w fill', lambda: a.spreading_pressure_at(0.5, interp_fill=3.0))
a2 = mkmol(); tryit('fresh above range w fill', lambda: a2.spreading_pressure_at(0.5, interp_fill=3.0))

print("== C03 split_ads_data label dependence")
from pygaps.utilities.math_utilities import split_ads_data
d0 = pd.DataFrame({'p':[5,4,3,2,1.]}); d1 = pd.DataFrame({'p':[5,4,3,2,1.]}, index=[1,2,3,4,5])
print(split_ads_data(d0,'p'), split_ads_data(d1,'p'))
d2 = pd.DataFrame({'p':[1,2,3,2,1.]}); d3 = pd.DataFrame({'p':[1,2,3,2,1.]}, index=[3,4,5,6,7])
print(split_ads_data(d2,'p'), split_ads_data(d3,'p'))
d4 = pd.DataFrame({'p':[1,3,2.]}, index=[2,0,1]); print(split_ads_data(d4,'p'))
