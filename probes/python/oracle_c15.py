import warnings, logging, time, random, collections, math, glob, json
warnings.filterwarnings('ignore')
import pygaps, numpy as np, pandas as pd
pygaps.logger.setLevel(logging.CRITICAL)
import pygaps.parsing as pgp, pygaps.characterisation as pgc
def clone(iso): return pygaps.PointIsotherm(isotherm_data=iso.data_raw.copy(), pressure_key=iso.pressure_key, loading_key=iso.loading_key, **iso.to_dict())
def snap(iso): return (iso.iso_id, json.dumps(iso.units, sort_keys=True), iso.data_raw.to_json(), json.dumps(iso.properties, sort_keys=True, default=str), json.dumps(iso.adsorbate.properties, sort_keys=True, default=str), json.dumps(iso.material.properties, sort_keys=True, default=str))
def flat(r):
    out={}
    def rec(k,v):
        if isinstance(v, dict):
            for kk,vv in v.items(): rec(k+'.'+str(kk), vv)
        elif isinstance(v,(list,tuple)) and v and isinstance(v[0], dict):
            for i,x in enumerate(v): rec(k+f'[{i}]', x)
        elif isinstance(v,(list,tuple,np.ndarray)):
            try: out[k]=np.asarray(v,dtype=float)
            except Exception: pass
        elif isinstance(v,(int,float,np.floating,np.integer)): out[k]=float(v)
    rec('',r); return out
files = sorted(glob.glob('/repo/docs/examples/data/characterisation/*.json'))
isos = {f.split('/')[-1][:8]: pgp.isotherm_from_json(f) for f in files}
routines = {
 'area_BET': lambda i: pgc.area_BET(i), 'area_langmuir': lambda i: pgc.area_langmuir(i),
 't_plot': lambda i: pgc.t_plot(i, t_limits=(0.3,0.8)), 'dr_plot': lambda i: pgc.dr_plot(i, p_limits=(None,0.1)), 'da_plot': lambda i: pgc.da_plot(i, p_limits=(None,0.1)),
 'psd_meso_DH': lambda i: pgc.psd_mesoporous(i, psd_model='pygaps-DH', branch='des'), 'psd_meso_BJH': lambda i: pgc.psd_mesoporous(i, psd_model='BJH', branch='des'),
 'psd_micro_HK': lambda i: pgc.psd_microporous(i, psd_model='HK'), 'psd_dft': lambda i: pgc.psd_dft(i),
 'henry_slope': lambda i: {'K': pgc.initial_henry_slope(i, max_adjrms=0.05)},
}
convs = [dict(pressure_unit='kPa', pressure_mode='absolute'), dict(pressure_mode='relative%'), dict(loading_basis='mass', loading_unit='mg'), dict(loading_basis='volume_gas', loading_unit='L'), dict(loading_unit='mol', loading_basis='molar'), dict(pressure_mode='absolute', pressure_unit='torr', loading_basis='volume_liquid', loading_unit='cm3')]
rows=[]
for name, iso in isos.items():
    for rn, fn in routines.items():
        s0=snap(iso)
        try: base = flat(fn(iso))
        except Exception as e: rows.append((name, rn, 'BASE-EXC', type(e).__name__, str(e)[:60])); continue
        if snap(iso)!=s0: rows.append((name, rn, 'MUTATED-INPUT'))
        for c in convs:
            j = clone(iso)
            try: j.convert(**c)
            except Exception as e: rows.append((name, rn, 'CONV-EXC', str(c))); continue
            try: r = flat(fn(j))
            except Exception as e: rows.append((name, rn, 'EXC after', str(c), type(e).__name__, str(e)[:60])); continue
            worst=0; wk=None
            for k,v in base.items():
                if 'limit' in k or 'section' in k or k not in r: continue
                a,b=np.asarray(v),np.asarray(r[k])
                if a.shape!=b.shape: worst=float('inf'); wk=k+' shape'; break
                d=float(np.max(np.abs(a-b)/np.maximum(np.abs(a),1e-12))) if a.size else 0
                if d>worst: worst,wk=d,k
            if worst>1e-6: rows.append((name, rn, 'DIFF', str(c), wk, '%.2e'%worst))
cnt=collections.Counter((r[1],r[2]) for r in rows)
for k,v in sorted(cnt.items()): print(v,k)
for r in rows[:40]: print(r)
