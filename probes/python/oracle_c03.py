import warnings, logging, itertools, math, time, random, collections
warnings.filterwarnings('ignore')
import pygaps, numpy as np, pandas as pd
pygaps.logger.setLevel(logging.CRITICAL)
exec(open('oracle_c02.py').read().split("def valid(iso)")[0])
rng = random.Random(7)
def clone(iso): return pygaps.PointIsotherm(isotherm_data=iso.data_raw.copy(), pressure_key='pressure', loading_key='loading', **iso.to_dict())
issues=collections.Counter(); ex={}; n=0
def cat(stored, req):
    (pm,pu),(lb,lu),(mb,mu)=stored; (rlb,rlu),(rmb,rmu)=req
    sf = lb in ('fraction','percent'); rf = rlb in ('fraction','percent')
    return ('storedFrac' if sf else 'storedPhys', 'reqFrac' if rf else 'reqPhys', 'matBasisChange' if rmb!=mb else ('matUnitChange' if rmu!=mu else 'matSame'))
t0=time.time()
for _ in range(2500):
    st = (rng.choice(PRESS), rng.choice(LOAD), rng.choice(MATS)); (pm,pu),(lb,lu),(mb,mu)=st
    rl = rng.choice(LOAD); rm = rng.choice(MATS) if rng.random()<0.7 else (mb,mu)
    iso = mk(pm,pu,lb,lu,mb,mu)
    perm = clone(iso)
    try:
        perm.convert(material_basis=rm[0], material_unit=rm[1]); perm.convert(loading_basis=rl[0], loading_unit=rl[1])
        expect = perm.loading()
    except Exception as e:
        continue
    n+=1
    c = cat(st,(rl,rm))
    for meth in ('loading','loading_at'):
        try:
            if meth=='loading': got = iso.loading(loading_basis=rl[0], loading_unit=rl[1], material_basis=rm[0], material_unit=rm[1])
            else: got = iso.loading_at(iso.pressure(), loading_basis=rl[0], loading_unit=rl[1], material_basis=rm[0], material_unit=rm[1])
            ok = np.allclose(got, expect, rtol=1e-10, atol=0)
            key = (meth,)+c+('OK' if ok else 'DIFF',)
        except Exception as e:
            key = (meth,)+c+('EXC:'+type(e).__name__,)
        issues[key]+=1; ex.setdefault(key,(st,rl,rm))
print('n',n,'time',round(time.time()-t0,1))
for k,v in sorted(issues.items()): print(v,k, ex[k] if not k[-1]=='OK' else '')
