import warnings, logging, tempfile, os
warnings.filterwarnings('ignore')
import pygaps, numpy as np, pandas as pd, copy
pygaps.logger.setLevel(logging.CRITICAL)
from pygaps.utilities.exceptions import *
import pygaps.parsing as pgp
def tryit(label, f):
    try:
        r = f()
        print(label, '->', r)
    except Exception as e:
        print(label, 'RAISES', type(e).__name__, str(e)[:150].replace('\n',' '))
base = dict(material='M1', adsorbate='N2', temperature=77.344, loading_basis='molar', loading_unit='mmol', material_basis='mass', material_unit='g', pressure_mode='absolute', pressure_unit='bar', temperature_unit='K')
print("== C05 id vs construction route")
a = pygaps.PointIsotherm(pressure=[1,2,3], loading=[1,2,3], **base)
b = pygaps.PointIsotherm(pressure=[1.,2.,3.], loading=[1.,2.,3.], **base)
c = pygaps.PointIsotherm(isotherm_data=pd.DataFrame({'pressure':[1.,2.,3.],'loading':[1.,2.,3.]}, index=[5,6,7]), pressure_key='pressure', loading_key='loading', **base)
d = pygaps.PointIsotherm(pressure=np.array([1.,2.,3.]), loading=np.array([1.,2.,3.]), **base)
print(a.iso_id, b.iso_id, c.iso_id, d.iso_id)
print(a.data_raw.dtypes.to_dict(), c.data_raw['branch'].tolist())
tryit('model int ranges id', lambda: pygaps.ModelIsotherm(pressure=[1,2,3,4], loading=[1,2,3,4], model='Henry', **base).iso_id)
print("== C06 json roundtrip")
a = pygaps.PointIsotherm(pressure=[1.,3.,2.], loading=[1.,3.,2.], branch='ads', **base)
tryit('user all-ads nonmonotone', lambda: (a.data_raw['branch'].tolist(), pgp.isotherm_from_json(a.to_json()).data_raw['branch'].tolist()))
a = pygaps.PointIsotherm(pressure=[1.,2.,3.,2.,1.], loading=[1.,2.,3.,2.5,1.5], **base)
r = pgp.isotherm_from_json(a.to_json()); print(a.data_raw.dtypes.to_dict(), r.data_raw.dtypes.to_dict(), a==r, a.iso_id, r.iso_id)
a = pygaps.PointIsotherm(pressure=[1.,2.,3.], loading=[1.,2.,3.], **base)
r = pgp.isotherm_from_json(a.to_json()); print('ads only', a==r)
p = np.linspace(0.01,0.9,20); 
mi = pygaps.ModelIsotherm(pressure=p, loading=2*np.exp(-(8.314*77.344*np.log(p)/5000)**2), model='DR', **{**base,'pressure_mode':'relative','pressure_unit':None})
r = pgp.isotherm_from_json(mi.to_json()); print('DR', mi.model.params, mi.model.minus_rt, r.model.minus_rt, mi.loading_at(0.5), r.loading_at(0.5), mi==r)
print("== C10/C11")
from pygaps.modelling import get_isotherm_model
m = get_isotherm_model('BET', parameters={'n_m':2.,'C':50.,'N':0.9}); tryit('BET.pressure(0)', lambda: m.pressure(0)); tryit('BET.pressure(0.0 arr)', lambda: m.pressure(np.array([0.,1.])))
tryit('BET inv', lambda: m.pressure(m.loading(np.array([0.01,0.1,0.5]))))
m = get_isotherm_model('TemkinApprox', parameters={'n_m':2.,'K':5.,'tht':1.5}); print('Temkin spr(0)', m.spreading_pressure(0.0))
mi = pygaps.ModelIsotherm(pressure=p, loading=2*3*p/(1+3*p), model='Langmuir', **{**base,'pressure_mode':'relative','pressure_unit':None})
tryit('model spreading relative% input', lambda: mi.spreading_pressure_at(50, pressure_mode='relative%'))
tryit('model spreading relative input', lambda: mi.spreading_pressure_at(0.5, pressure_mode='relative'))
tryit('model spreading native', lambda: mi.spreading_pressure_at(0.5))
