import warnings, logging, random, collections, json
warnings.filterwarnings('ignore')
import pygaps, numpy as np, pandas as pd
pygaps.logger.setLevel(logging.CRITICAL)
rng = random.Random(2)
base = dict(material='M1', adsorbate='N2', temperature=77.344, loading_basis='molar', loading_unit='mmol', material_basis='mass', material_unit='g', pressure_mode='absolute', pressure_unit='bar', temperature_unit='K')
P=[0.1,0.2,0.35,0.5,0.7,0.5,0.3,0.15]; L=[1.,2.,3.,3.8,4.5,4.2,3.5,2.2]
def fresh(): return pygaps.PointIsotherm(pressure=P, loading=L, **base)
def snap(iso): return (iso.iso_id, json.dumps(iso.units), iso.data_raw.to_json(), json.dumps(iso.adsorbate.properties, sort_keys=True, default=str))
def out(f):
    try:
        r=f(); 
        return ('ok', np.round(np.asarray(r, dtype=float),12).tolist() if not isinstance(r,(str,dict)) else str(r)[:50])
    except Exception as e: return ('err', type(e).__name__)
def rq():
    br = rng.choice(['ads','des']); kind = rng.choice(['linear','linear','nearest','quadratic','cubic']); fill = rng.choice([None,None,0.0,'extrapolate',(0.0,5.0)])
    x = rng.choice([0.05,0.1,0.2,0.33,0.7,0.9]); ld = rng.choice([0.5,1.0,2.5,4.5,5.0])
    pu = rng.choice([None,None,'kPa']); lu_ = rng.choice([None,None,'mol'])
    c = rng.randint(0,6)
    if c==0: return ('loading_at',br,kind,str(fill),x,pu,lu_), lambda i: i.loading_at(x if not pu else x*100, branch=br, interpolation_type=kind, interp_fill=fill, pressure_unit=pu, loading_unit=lu_)
    if c==1: return ('pressure_at',br,kind,str(fill),ld,pu), lambda i: i.pressure_at(ld, branch=br, interpolation_type=kind, interp_fill=fill, pressure_unit=pu)
    if c==2: return ('spreading',br,str(fill),x), lambda i: i.spreading_pressure_at(x, branch=br, interp_fill=fill)
    if c==3: return ('pressure',br,pu), lambda i: i.pressure(branch=br, pressure_unit=pu)
    if c==4: return ('loading',br,lu_), lambda i: i.loading(branch=br, loading_unit=lu_)
    if c==5: return ('to_json',), lambda i: len(i.to_json())
    return ('relative',br), lambda i: i.pressure(branch=br, pressure_mode='relative')
diff=collections.Counter(); ex={}; mut=0; n=0
for s in range(400):
    iso = fresh(); s0 = snap(iso); hist=[]
    for step in range(rng.randint(2,12)):
        key, f = rq(); n+=1
        a = out(lambda: f(iso)); b = out(lambda: f(fresh()))
        if a!=b:
            k=(key[0], a[0], b[0]); diff[k]+=1; ex.setdefault(k,(hist[-3:], key, a, b))
        hist.append(key)
        if snap(iso)!=s0: mut+=1
print('queries',n,'mutations',mut)
for k,v in sorted(diff.items(), key=lambda x:-x[1]): print(v,k, str(ex[k])[:400])
