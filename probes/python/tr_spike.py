import ast, sys, textwrap, inspect
SRC = '/repo/src/pygaps/modelling/'
NP_FUN = {'log': 'LOG', 'exp': 'EXP', 'sqrt': 'SQRT'}

class Tr(ast.NodeVisitor):
    def __init__(self, mode):  # mode 'R' or 'F'
        self.mode = mode; self.params=set()
    def lit(self, v):
        if isinstance(v, bool): raise NotImplementedError
        if isinstance(v, int): return f"({v} : {self.T})"
        if isinstance(v, float):
            from fractions import Fraction
            import decimal
            d = decimal.Decimal(repr(v))
            fr = Fraction(d)
            return f"(({fr.numerator} : {self.T}) / ({fr.denominator} : {self.T}))" if fr.denominator != 1 else f"({fr.numerator} : {self.T})"
        raise NotImplementedError(v)
    @property
    def T(self): return 'ℝ' if self.mode=='R' else 'Float'
    def e(self, n):
        if isinstance(n, ast.Constant): return self.lit(n.value)
        if isinstance(n, ast.Name): return n.id
        if isinstance(n, ast.Subscript) and isinstance(n.value, ast.Attribute) and n.value.attr=='params':
            k = n.slice.value; self.params.add(k); return 'P_'+k
        if isinstance(n, ast.UnaryOp) and isinstance(n.op, ast.USub): return f"(-{self.e(n.operand)})"
        if isinstance(n, ast.BinOp):
            a, b = self.e(n.left), self.e(n.right)
            if isinstance(n.op, ast.Add): return f"({a} + {b})"
            if isinstance(n.op, ast.Sub): return f"({a} - {b})"
            if isinstance(n.op, ast.Mult): return f"({a} * {b})"
            if isinstance(n.op, ast.Div): return f"({a} / {b})"
            if isinstance(n.op, ast.Pow):
                if isinstance(n.right, ast.Constant) and isinstance(n.right.value, int) and n.right.value >= 0:
                    if self.mode=='R': return f"({a} ^ ({n.right.value} : ℕ))"
                    return f"(Float.pow {a} {b})"
                return f"(Real.rpow {a} {b})" if self.mode=='R' else f"(Float.pow {a} {b})"
        if isinstance(n, ast.Call) and isinstance(n.func, ast.Attribute) and isinstance(n.func.value, ast.Name) and n.func.value.id=='numpy' and n.func.attr in NP_FUN:
            f = {'R': {'log':'Real.log','exp':'Real.exp','sqrt':'Real.sqrt'}, 'F': {'log':'Float.log','exp':'Float.exp','sqrt':'Float.sqrt'}}[self.mode][n.func.attr]
            return f"({f} {self.e(n.args[0])})"
        raise NotImplementedError(ast.dump(n))
    def fn(self, cls, f):
        body=[]; args=[a.arg for a in f.args.args if a.arg!='self']
        for st in f.body:
            if isinstance(st, ast.Expr) and isinstance(st.value, ast.Constant): continue  # docstring
            if isinstance(st, ast.Assign) and len(st.targets)==1 and isinstance(st.targets[0], ast.Name):
                body.append(f"  let {st.targets[0].id} := {self.e(st.value)}")
            elif isinstance(st, ast.Return):
                body.append(f"  {self.e(st.value)}")
            else: raise NotImplementedError(ast.dump(st)[:80])
        ps = sorted(self.params)
        sig = ' '.join(f"(P_{p} : {self.T})" for p in ps) + ' ' + ' '.join(f"({a} : {self.T})" for a in args)
        nc = 'noncomputable ' if self.mode=='R' else ''
        return f"{nc}def {cls}_{f.name} {sig} : {self.T} :=\n" + "\n".join(body) + "\n"

for mode in 'RF':
    out = ["import Mathlib.Analysis.SpecialFunctions.Pow.Real\nimport Mathlib.Analysis.SpecialFunctions.Sqrt\nimport Mathlib.Tactic\nnamespace Gen\n" if mode=='R' else "namespace GenF\n"]
    for mod, cls in [('langmuir','Langmuir'),('bet','BET'),('temkinapprox','TemkinApprox'),('freundlich','Freundlich')]:
        tree = ast.parse(open(SRC+mod+'.py').read())
        c = [n for n in tree.body if isinstance(n, ast.ClassDef) and n.name==cls][0]
        for f in c.body:
            if isinstance(f, ast.FunctionDef) and f.name in ('loading','pressure','spreading_pressure'):
                t = Tr(mode)
                try: out.append(t.fn(cls, f))
                except NotImplementedError as e: out.append(f"-- UNTRANSLATED {cls}.{f.name}: {str(e)[:100]}\n")
    out.append("end Gen\n" if mode=='R' else "end GenF\n")
    open(f'/tmp/leanspike/Leanspike/Gen{mode}.lean','w').write("\n".join(out))
print(open('/tmp/leanspike/Leanspike/GenR.lean').read())
