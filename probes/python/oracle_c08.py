import warnings, logging, random, collections, json, tempfile, os, sqlite3, shutil
warnings.filterwarnings('ignore')
import pygaps, numpy as np, pandas as pd
pygaps.logger.setLevel(logging.CRITICAL)
import pygaps.parsing as pgp, pygaps.parsing.sqlite as pgsql
from pygaps.utilities.sqlite_db_creator import db_create
from pygaps.utilities.exceptions import ParsingError
def tryit(label, f):
    try: r=f(); print(label,'->',r)
    except Exception as e: print(label,'RAISES',type(e).__name__, str(e)[:110].replace('\n',' '))
td=tempfile.mkdtemp(); db=os.path.join(td,'a.db'); db_create(db)
# adsorbates
a = pygaps.Adsorbate('gasA', alias=['ga','GA2'], formula='G_{2}', molar_mass=30, backend_name=None or 'X', cross_sectional_area=0.2, note='text prop')
tryit('ads upload', lambda: pgp.adsorbate_to_db(a, db_path=db, verbose=False))
got = [x for x in pgp.adsorbates_from_db(db_path=db, verbose=False) if x.name=='gasA']
print('ads retrieved', got[0].to_dict() if got else None, '| orig', a.to_dict())
tryit('ads dup', lambda: pgp.adsorbate_to_db(a, db_path=db, verbose=False))
tryit('ads overwrite', lambda: pgp.adsorbate_to_db(pygaps.Adsorbate('gasA', molar_mass=31), db_path=db, overwrite=True, verbose=False))
print('after overwrite', [x.to_dict() for x in pgp.adsorbates_from_db(db_path=db, verbose=False) if x.name=='gasA'])
tryit('ads overwrite absent', lambda: pgp.adsorbate_to_db(pygaps.Adsorbate('nope'), db_path=db, overwrite=True, verbose=False))
tryit('ads delete', lambda: pgp.adsorbate_delete_db(a, db_path=db, verbose=False)); tryit('ads delete again', lambda: pgp.adsorbate_delete_db(a, db_path=db, verbose=False))
tryit('ads delete by name str', lambda: pgp.adsorbate_delete_db('helium', db_path=db, verbose=False))
# materials
m = pygaps.Material('matA', density=2.5, molar_mass=100, batch='b1', n=3)
tryit('mat upload', lambda: pgp.material_to_db(m, db_path=db, verbose=False))
print('mat retrieved', [x.to_dict() for x in pgp.materials_from_db(db_path=db, verbose=False)], '| orig', m.to_dict())
tryit('mat dup', lambda: pgp.material_to_db(m, db_path=db, verbose=False))
tryit('mat unstorable prop', lambda: pgp.material_to_db(pygaps.Material('matB', weird={'a':1}), db_path=db, verbose=False))
print('mats now', [x.name for x in pgp.materials_from_db(db_path=db, verbose=False)], 'MATERIAL_LIST', [x.name for x in pygaps.MATERIAL_LIST])
tryit('mat None prop', lambda: pgp.material_to_db(pygaps.Material('matC', density=None), db_path=db, verbose=False))
print('mats now', [x.name for x in pgp.materials_from_db(db_path=db, verbose=False)], 'MATERIAL_LIST', [x.name for x in pygaps.MATERIAL_LIST])
# isotherm with material referenced -> delete material refused?
base = dict(adsorbate='N2', temperature=77.344, loading_basis='molar', loading_unit='mmol', material_basis='mass', material_unit='g', pressure_mode='absolute', pressure_unit='bar', temperature_unit='K')
iso = pygaps.PointIsotherm(pressure=[1.,2.,3.], loading=[1.,2.,3.], material='matA', iso_type='pointisotherm', flag=True, n=5, **base)
tryit('iso upload', lambda: pgp.isotherm_to_db(iso, db_path=db, verbose=False))
tryit('iso dup', lambda: pgp.isotherm_to_db(iso, db_path=db, verbose=False))
g = pgp.isotherms_from_db(db_path=db, verbose=False); print('iso retrieved eq (with iso_type key masking)', g[0]==iso, g[0].properties, iso.properties)
tryit('criteria', lambda: len(pgp.isotherms_from_db(criteria={'material':'matA'}, db_path=db, verbose=False)))
tryit('criteria none', lambda: len(pgp.isotherms_from_db(criteria={'material':'zzz'}, db_path=db, verbose=False)))
tryit('mat delete while referenced', lambda: pgp.material_delete_db(m, db_path=db, verbose=False))
c=sqlite3.connect(db); print('mat props after refused delete', c.execute("select * from material_properties").fetchall()); c.close()
tryit('iso delete', lambda: pgp.isotherm_delete_db(iso, db_path=db, verbose=False)); tryit('iso delete again', lambda: pgp.isotherm_delete_db(iso, db_path=db, verbose=False))
shutil.rmtree(td)
