import warnings, logging, random, collections, json, tempfile, os, math
warnings.filterwarnings('ignore')
import pygaps, numpy as np, pandas as pd
pygaps.logger.setLevel(logging.CRITICAL)
import pygaps.parsing as pgp
rng = random.Random(11)
exec(open('oracle_c01.py').read().split("def close(a,b)")[0].split("class Ads")[0])
PRESS = [('absolute',u) for u in PA]+[('relative',None),('relative%',None)]
LOAD = [('molar',u) for u in MOL]+[('mass',u) for u in G]+[('volume_gas',u) for u in CM3]+[('volume_liquid',u) for u in CM3]+[('fraction',None),('percent',None)]
MATS = [('mass',u) for u in G]+[('volume',u) for u in CM3]+[('molar',u) for u in MOL]
def meta():
    vals = ['text', 'ünï©ode 中', '1e5', 'True', 'None', '[1 2]', '', ' padded ', 5, -3, 0, 2.5, -0.0, 1e-320, 1e22, True, False, None, [1,2,3], ['a','b'], [1.5,[2,'x']], {'nested': 1}]
    keys = ['comment','user','iso_type','date','k with space','lab','x1','_odd','Ünï']
    return {k: rng.choice(vals) for k in rng.sample(keys, rng.randint(0,5))}
td = tempfile.mkdtemp(); res=collections.Counter(); ex={}
def same_types(a,b):
    if type(a)!=type(b): return False
    if isinstance(a,dict): return a.keys()==b.keys() and all(same_types(a[k],b[k]) for k in a)
    if isinstance(a,list): return len(a)==len(b) and all(same_types(x,y) for x,y in zip(a,b))
    if isinstance(a,float) and math.isnan(a): return math.isnan(b)
    return a==b
for it in range(600):
    (pm,pu),(lb,lu),(mb,mu) = rng.choice(PRESS), rng.choice(LOAD), rng.choice(MATS)
    md = meta()
    mat = rng.choice(['M1', {'name':'M%d'%it, 'density': 1.5, 'note': 'x'}])
    kind = rng.choice(['base','point','point','model'])
    common = dict(material=mat if not isinstance(mat,dict) else dict(mat), adsorbate=rng.choice(['N2','CO2','unknowngas']), temperature=rng.choice([77,77.344,298.15]), pressure_mode=pm, pressure_unit=pu, loading_basis=lb, loading_unit=lu, material_basis=mb, material_unit=mu, temperature_unit=rng.choice(['K','°C']), **md)
    try:
        if kind=='base': iso = pygaps.core.baseisotherm.BaseIsotherm(**common)
        elif kind=='point':
            n = rng.randint(1,12); p = sorted(rng.uniform(0.01,1) for _ in range(n)); l=[x*2 for x in p]
            br = rng.choice(['guess','ads','des','user','updown'])
            if br=='updown': p = p+p[::-1][1:]; l=l+[x*1.1 for x in l[::-1][1:]]; br='guess'
            if br=='user': br=[rng.random()<0.5 for _ in p]
            extra = {}
            data = pd.DataFrame({'pressure':p,'loading':l})
            if rng.random()<0.4: data['enthalpy']=[rng.uniform(1,9) for _ in p]
            if rng.random()<0.2: data['note']=[rng.choice(['a','b']) for _ in p]
            iso = pygaps.PointIsotherm(isotherm_data=data, pressure_key='pressure', loading_key='loading', branch=br, **common)
        else:
            from pygaps.modelling import get_isotherm_model
            m = get_isotherm_model('Langmuir', parameters={'K':rng.uniform(0.1,10),'n_m':rng.uniform(1,5)}, pressure_range=(0.01,1.0), loading_range=(0.0,3.0), rmse=1e-3)
            iso = pygaps.ModelIsotherm(model=m, **common)
    except Exception as e:
        res[('construct-exc',type(e).__name__)]+=1; ex.setdefault(('construct-exc',type(e).__name__),(kind,md,str(e)[:80])); continue
    try:
        s = iso.to_json(); back = pgp.isotherm_from_json(s)
    except Exception as e:
        k=('rt-exc',kind,type(e).__name__); res[k]+=1; ex.setdefault(k,(md,str(e)[:100])); continue
    ok_eq = (back==iso); d1, d2 = iso.to_dict(), back.to_dict()
    ok_types = same_types(json.loads(json.dumps(d1)), json.loads(json.dumps(d2)))
    ok_doc = (back.to_json()==s)
    ok_data = True
    if kind=='point':
        a,b = iso.data_raw.reset_index(drop=True), back.data_raw.reset_index(drop=True)
        ok_data = list(a.columns)==list(b.columns) and all([float(x) if isinstance(x,(int,float,np.integer,np.floating,bool,np.bool_)) else x for x in a[c].tolist()]==[float(x) if isinstance(x,(int,float,np.integer,np.floating,bool,np.bool_)) else x for x in b[c].tolist()] for c in a.columns)
    k=(kind,'eq' if ok_eq else 'NEQ','dict' if ok_types else 'DICTDIFF','doc' if ok_doc else 'DOCDIFF','data' if ok_data else 'DATADIFF')
    res[k]+=1; ex.setdefault(k,(md, iso.data_raw['branch'].tolist() if kind=='point' else None, back.data_raw['branch'].tolist() if kind=='point' else None))
for k,v in sorted(res.items(), key=lambda x:-x[1]): print(v,k, str(ex[k])[:220] if ('NEQ' in k or 'DICTDIFF' in k or 'DATADIFF' in k or 'exc' in k[0]) else '')
