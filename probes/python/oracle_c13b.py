import warnings, logging, time, random, collections, math
warnings.filterwarnings('ignore')
import pygaps, numpy as np
pygaps.logger.setLevel(logging.CRITICAL)
import pygaps.iast as pgi
from pygaps.modelling import get_isotherm_model
from pygaps.utilities.exceptions import CalculationError
rng = random.Random(21)
def lu(a,b): return math.exp(rng.uniform(math.log(a), math.log(b)))
def params(name):
    if name=='Henry': return dict(K=lu(0.3,30))
    if name=='Langmuir': return dict(K=lu(0.1,30), n_m=lu(1,10))
    if name=='DSLangmuir': return dict(n_m1=lu(1,10),K1=lu(0.1,30),n_m2=lu(1,10),K2=lu(0.1,30))
    if name=='TSLangmuir': return dict(n_m1=lu(1,10),K1=lu(0.1,30),n_m2=lu(1,10),K2=lu(0.1,30),n_m3=lu(1,10),K3=lu(0.1,30))
    if name=='Quadratic': return dict(n_m=lu(1,10), Ka=lu(0.1,30), Kb=lu(0.01,10))
    if name=='TemkinApprox': return dict(n_m=lu(1,10), K=lu(0.1,30), tht=rng.uniform(0,1))
    if name=='Toth': return dict(n_m=lu(1,10), K=lu(0.1,30), t=lu(0.3,2))
    if name=='JensenSeaton': return dict(K=lu(0.3,30), a=lu(1,10), b=lu(0.01,1), c=lu(0.5,3))
base = dict(material='M1', adsorbate='N2', temperature=77.344, loading_basis='molar', loading_unit='mmol', material_basis='mass', material_unit='g', pressure_mode='absolute', pressure_unit='bar', temperature_unit='K')
cnt=collections.Counter(); worst=collections.defaultdict(float); t0=time.time()
for it in range(600):
    ncomp = rng.randint(2,4); isos=[]; names=[]
    for c in range(ncomp):
        name = rng.choice(['Henry','Langmuir','DSLangmuir','TSLangmuir','Quadratic','Toth','JensenSeaton','TemkinApprox']); names.append(name)
        pr = {k: np.float64(v) for k,v in params(name).items()}
        m = get_isotherm_model(name, parameters=pr, pressure_range=(0.0,10.0), loading_range=(0.0,10.0))
        isos.append(pygaps.ModelIsotherm(model=m, **{**base,'adsorbate':['N2','CH4','CO2','O2'][c]}))
    pp = [rng.uniform(0.05,2.0) for _ in range(ncomp)]
    try: n = pgi.iast_point(isos, pp, warningoff=True)
    except CalculationError: cnt['calc']+=1; continue
    except Exception as e: cnt['EXC '+type(e).__name__]+=1; continue
    x = n/np.sum(n); p0 = np.array(pp)/x
    sp = np.array([float(i.spreading_pressure_at(q)) for i,q in zip(isos,p0)])
    r1 = float((sp.max()-sp.min())/abs(sp.mean())); nt = 1/np.sum([xi/float(i.loading_at(q)) for xi,i,q in zip(x,isos,p0)]); r2=abs(nt-np.sum(n))/np.sum(n)
    bucket = 'x>1e-3' if x.min()>1e-3 else ('x>1e-6' if x.min()>1e-6 else 'x tiny')
    quadm = any(nm in ('Toth','JensenSeaton') for nm in names)
    worst[(bucket,quadm)] = max(worst[(bucket,quadm)], r1, r2); cnt[(bucket, quadm, 'ok' if max(r1,r2)<1e-6 else 'RESID')]+=1
    # permutation
    if ncomp>=2 and it%5==0:
        perm = list(range(ncomp)); rng.shuffle(perm)
        try:
            n2 = pgi.iast_point([isos[i] for i in perm], [pp[i] for i in perm], warningoff=True)
            d = float(np.max(np.abs(n2-np.array([n[i] for i in perm]))/np.max(n))); worst['perm']=max(worst['perm'],d)
        except Exception: cnt['perm-exc']+=1
print(dict(cnt)); print({k:'%.1e'%v for k,v in worst.items()}, round(time.time()-t0,1))
