import warnings, logging, time, random, collections, math
warnings.filterwarnings('ignore')
import pygaps, numpy as np
pygaps.logger.setLevel(logging.CRITICAL)
import pygaps.iast as pgi
from pygaps.modelling import get_isotherm_model
from pygaps.utilities.exceptions import CalculationError
exec(open('oracle_c10.py').read().split("res=collections.defaultdict")[0].split("rng = random.Random(3)")[1])
rng = random.Random(9)
base = dict(material='M1', adsorbate='N2', temperature=77.344, loading_basis='molar', loading_unit='mmol', material_basis='mass', material_unit='g', pressure_mode='absolute', pressure_unit='bar', temperature_unit='K')
res=collections.defaultdict(collections.Counter); worst=collections.defaultdict(float)
t0=time.time()
for name in ['Henry','Langmuir','DSLangmuir','BET','Freundlich','DR','DA','TemkinApprox','Toth','JensenSeaton']:
    for it in range(25):
        pr = params(name); m = get_isotherm_model(name, parameters=pr)
        b = dict(base)
        if name in ('DR','DA'): m.minus_rt = -8.314462618*77.344; b.update(pressure_mode='relative', pressure_unit=None)
        if name=='BET': pmax = 0.8/pr['N']
        elif name in ('DR','DA'): pmax=0.95
        else: pmax = 10/ max(v for k,v in pr.items() if k.startswith('K'))
        npts = rng.randint(8,60); p = np.linspace(pmax/npts, pmax, npts); l = m.loading(p)
        try:
            mi = pygaps.ModelIsotherm(pressure=p, loading=l, model=name, **b)
        except CalculationError as e:
            res[name]['fit-failed']+=1; continue
        except Exception as e:
            res[name]['EXC '+type(e).__name__]+=1; continue
        curve = float(np.max(np.abs(mi.model.loading(p)-l))/np.max(np.abs(l))); worst[name]=max(worst[name],curve)
        rm = float(np.sqrt(np.mean((mi.model.loading(p)-l)**2))/(max(l)-min(l)))
        res[name]['curve ok' if curve<1e-4 else 'curve BAD %.0e'%curve]+=1
        res[name]['rmse ok' if abs(rm-mi.model.rmse)<=1e-9*max(rm,1e-300)+1e-18 else 'rmse BAD']+=1
        inb = all(mi.model.param_bounds[k][0] <= v <= mi.model.param_bounds[k][1] for k,v in mi.model.params.items()); res[name]['bounds ok' if inb else 'bounds BAD']+=1
print('fit time', round(time.time()-t0,1))
for n_,c in res.items(): print(n_, dict(c), 'worst curve %.1e'%worst[n_])
# IAST certificates
t0=time.time(); ires=collections.Counter(); wres=0
for it in range(150):
    ncomp = rng.randint(2,4); isos=[]; 
    for c in range(ncomp):
        name = rng.choice(['Henry','Langmuir','DSLangmuir','TSLangmuir','Quadratic','BET','Toth','JensenSeaton'])
        pr = params(name); 
        if name=='BET': pr['N']=rng.uniform(0.01,0.05)
        m = get_isotherm_model(name, parameters=pr, pressure_range=(0.0,10.0), loading_range=(0.0,10.0))
        isos.append(pygaps.ModelIsotherm(model=m, **{**base,'adsorbate':['N2','CH4','CO2','O2'][c]}))
    pp = [rng.uniform(0.01,1.0) for _ in range(ncomp)]
    try: n = pgi.iast_point(isos, pp, warningoff=True)
    except CalculationError: ires['calc-error']+=1; continue
    except Exception as e: ires['EXC '+type(e).__name__]+=1; continue
    x = n/np.sum(n); p0 = np.array(pp)/x
    sp = np.array([float(i.spreading_pressure_at(q)) for i,q in zip(isos,p0)])
    r1 = float((sp.max()-sp.min())/abs(sp.mean())); nt = 1/np.sum([xi/float(i.loading_at(q)) for xi,i,q in zip(x,isos,p0)]); r2=abs(nt-np.sum(n))/np.sum(n)
    wres=max(wres,r1,r2); ires['ok' if max(r1,r2)<1e-6 and np.all((x>=0)&(x<=1)) else 'RESID %.0e'%max(r1,r2)]+=1
print('iast', dict(ires), 'worst resid %.1e'%wres, round(time.time()-t0,1))
