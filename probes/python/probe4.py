import warnings, logging, tempfile, os, sqlite3
warnings.filterwarnings('ignore')
import pygaps, numpy as np, pandas as pd, copy
pygaps.logger.setLevel(logging.CRITICAL)
from pygaps.utilities.exceptions import *
import pygaps.parsing as pgp
from pygaps.utilities.sqlite_db_creator import db_create
def tryit(label, f):
    try:
        r = f()
        print(label, '->', r)
    except Exception as e:
        print(label, 'RAISES', type(e).__name__, str(e)[:150].replace('\n',' '))
base = dict(adsorbate='N2', temperature=77.344, loading_basis='molar', loading_unit='mmol', material_basis='mass', material_unit='g', pressure_mode='absolute', pressure_unit='bar', temperature_unit='K')
td = tempfile.mkdtemp()
db1 = os.path.join(td,'a.db'); db2 = os.path.join(td,'b.db')
db_create(db1); db_create(db2)
print('ads in db1', len(pgp.adsorbates_from_db(db_path=db1, verbose=False)), 'ADSORBATE_LIST', len(pygaps.ADSORBATE_LIST))
iso = pygaps.PointIsotherm(pressure=[1.,2.,3.,2.], loading=[1.,2.,3.,2.5], material='MX', comment='hello', **base)
tryit('upload db1', lambda: pgp.isotherm_to_db(iso, db_path=db1, verbose=False))
got = pgp.isotherms_from_db(db_path=db1, verbose=False)
print('retrieved', len(got), got[0]==iso, got[0].properties, got[0].data_raw.to_dict('list'))
tryit('delete via retrieved', lambda: pgp.isotherm_delete_db(got[0], db_path=db1, verbose=False))
tryit('upload db2 (material now in MATERIAL_LIST)', lambda: pgp.isotherm_to_db(iso, db_path=db2, verbose=False))
print('MATERIAL_LIST', [m.name for m in pygaps.MATERIAL_LIST])
# C09-ish: failed op leaves list polluted
iso2 = pygaps.PointIsotherm(pressure=[1.,2.], loading=[1.,2.], material='MY', **{**base,'adsorbate':'weirdgas'})
tryit('upload w/o autoinsert adsorbate', lambda: pgp.isotherm_to_db(iso2, db_path=db1, autoinsert_adsorbate=False, verbose=False))
con = sqlite3.connect(db1); print('materials in db1', con.execute('select name from materials').fetchall()); con.close()
tryit('retry with autoinsert', lambda: pgp.isotherm_to_db(iso2, db_path=db1, verbose=False))
