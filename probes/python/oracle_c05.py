import warnings, logging, subprocess, sys, json, os
warnings.filterwarnings('ignore')
import pygaps, numpy as np, pandas as pd
pygaps.logger.setLevel(logging.CRITICAL)
base = dict(material='M1', adsorbate='N2', temperature=77.344, loading_basis='molar', loading_unit='mmol', material_basis='mass', material_unit='g', pressure_mode='absolute', pressure_unit='bar', temperature_unit='K', comment='a', n=3, flag=True, lst=[1,2])
P=[0.1,0.2,0.3,0.2]; L=[1.,2.,3.,2.5]
def pid(**kw):
    d={**base, **kw.pop('over',{})}; p=kw.pop('p',P); l=kw.pop('l',L); br=kw.pop('branch','guess')
    return pygaps.PointIsotherm(pressure=p, loading=l, branch=br, **d).iso_id
ref = pid()
edits = {
 'comment': dict(over={'comment':'b'}), 'n': dict(over={'n':4}), 'flag': dict(over={'flag':False}), 'lst': dict(over={'lst':[1,3]}), 'newkey': dict(over={'zz':1}),
 'material': dict(over={'material':'M2'}), 'adsorbate': dict(over={'adsorbate':'CO2'}), 'temperature': dict(over={'temperature':77.345}),
 'p_unit': dict(over={'pressure_unit':'kPa'}), 'p_mode': dict(over={'pressure_mode':'relative','pressure_unit':None}), 'l_unit': dict(over={'loading_unit':'mol'}), 'l_basis': dict(over={'loading_basis':'mass','loading_unit':'g'}),
 'm_unit': dict(over={'material_unit':'kg'}), 'm_basis': dict(over={'material_basis':'volume','material_unit':'cm3'}), 't_unit': dict(over={'temperature_unit':'°C'}),
 'data+2e-8': dict(l=[1.,2.,3.+2e-8,2.5]), 'data+2e-9': dict(l=[1.,2.,3.+2e-9,2.5]), 'pdata+2e-8': dict(p=[0.1,0.2+2e-8,0.3,0.2]),
 'branch': dict(branch=[0,0,1,1]), 'reorder': dict(p=[0.2,0.1,0.3,0.2], l=[2.,1.,3.,2.5]),
}
for k,e in edits.items():
    print(k, 'CHANGED' if pid(**e)!=ref else 'same')
# process / hashseed stability
code = "import warnings,logging;warnings.filterwarnings('ignore');import pygaps;pygaps.logger.setLevel(50);print(pygaps.PointIsotherm(pressure=[0.1,0.2,0.3,0.2], loading=[1.,2.,3.,2.5], **%r).iso_id)" % base
for seed in ['0','1','123']:
    out = subprocess.run([sys.executable,'-c',code], env={**os.environ,'PYTHONHASHSEED':seed}, capture_output=True, text=True).stdout.strip().splitlines()[-1]
    print('seed',seed, out==ref)
# read-only calls don't change id
iso = pygaps.PointIsotherm(pressure=P, loading=L, **base); i0=iso.iso_id; iso.loading_at(0.15); iso.pressure(pressure_unit='kPa'); iso.spreading_pressure_at(0.15); print('after reads', iso.iso_id==i0)
