import warnings, logging, time, random, collections, math
warnings.filterwarnings('ignore')
import pygaps, numpy as np
pygaps.logger.setLevel(logging.CRITICAL)
from pygaps.modelling import get_isotherm_model, _MODELS
from scipy import integrate
rng = random.Random(3)
def lu(a,b): return math.exp(rng.uniform(math.log(a), math.log(b)))
def params(name):
    if name=='Henry': return dict(K=lu(1e-3,1e3))
    if name=='Langmuir': return dict(K=lu(1e-3,1e3), n_m=lu(1e-2,1e2))
    if name=='DSLangmuir': return dict(n_m1=lu(1e-2,1e2),K1=lu(1e-3,1e3),n_m2=lu(1e-2,1e2),K2=lu(1e-3,1e3))
    if name=='TSLangmuir': return dict(n_m1=lu(1e-2,1e2),K1=lu(1e-3,1e3),n_m2=lu(1e-2,1e2),K2=lu(1e-3,1e3),n_m3=lu(1e-2,1e2),K3=lu(1e-3,1e3))
    if name=='BET': return dict(n_m=lu(1e-2,1e2), C=lu(1e-1,1e3), N=rng.uniform(0.01,0.99))
    if name=='GAB': return dict(n_m=lu(1e-2,1e2), C=lu(1e-1,1e3), K=rng.uniform(0.01,0.99))
    if name=='Freundlich': return dict(K=lu(1e-2,1e2), m=lu(0.3,5))
    if name=='DR': return dict(n_m=lu(1e-2,1e2), e=lu(2e3,2e4))
    if name=='DA': return dict(n_m=lu(1e-2,1e2), e=lu(2e3,2e4), m=rng.uniform(1,3))
    if name=='Quadratic': return dict(n_m=lu(1e-2,1e2), Ka=lu(1e-2,1e2), Kb=lu(1e-2,1e2))
    if name=='TemkinApprox': return dict(n_m=lu(1e-2,1e2), K=lu(1e-2,1e2), tht=rng.uniform(0,1))
    if name=='Toth': return dict(n_m=lu(1e-2,1e2), K=lu(1e-2,1e2), t=lu(0.2,3))
    if name=='JensenSeaton': return dict(K=lu(1e-2,1e2), a=lu(1e-1,1e2), b=lu(1e-2,1e1), c=lu(0.3,3))
    if name=='Virial': return dict(K=lu(1e-1,1e2), A=rng.uniform(0,1), B=rng.uniform(0,0.1), C=rng.uniform(0,0.01))
    if name=='FHVST': return dict(n_m=lu(1e-1,1e2), K=lu(1e-2,1e2), a1v=rng.uniform(-0.5,2))
    if name=='WVST': return dict(n_m=lu(1e-1,1e2), K=lu(1e-2,1e2), L1v=lu(0.3,3), Lv1=lu(0.3,3))
res=collections.defaultdict(lambda: collections.Counter()); worst=collections.defaultdict(float); ex={}
t0=time.time()
for name in _MODELS:
    for it in range(60):
        pr = params(name); m = get_isotherm_model(name, parameters=pr)
        if name in ('DR','DA'): m.minus_rt = -8.314462618*77.0
        if m.calculates=='loading':
            if name in ('BET','GAB'): pmax = 0.95/(pr.get('N') or pr.get('K'))
            elif name in ('DR','DA'): pmax=1.0
            else: pmax = 10/ max(v for k,v in pr.items() if k.startswith('K')) if any(k.startswith('K') for k in pr) else 10
            ps = np.array([pmax*x for x in (1e-4,1e-2,0.1,0.3,0.6,0.9)])
            try:
                n = m.loading(ps); back = m.pressure(n)
                err = float(np.max(np.abs(back/ps-1))); worst[name]=max(worst[name],err)
                k = 'inv ok' if err<1e-6 else 'inv BAD'
                res[name][k]+=1
                if k=='inv BAD': ex.setdefault((name,k),(pr,ps.tolist(),np.asarray(back).tolist()))
                res[name]['mono ok' if np.all(np.diff(n)>=-1e-12*np.abs(n[1:])) else 'mono BAD']+=1
                res[name]['nonneg ok' if np.all(n>=0) else 'nonneg BAD']+=1
            except Exception as e:
                res[name]['EXC '+type(e).__name__]+=1; ex.setdefault((name,'exc'),(pr,str(e)[:80]))
            # spreading pressure
            try:
                sp = np.array([m.spreading_pressure(p) for p in ps])
                q = np.array([integrate.quad(lambda x: m.loading(x)/x, 0, p, limit=200)[0] for p in ps])
                e2 = float(np.max(np.abs(sp-q)/np.maximum(np.abs(q),1e-300)))
                res[name]['spread ok' if e2<1e-6 else 'spread BAD']+=1
                if e2>=1e-6: ex.setdefault((name,'spread'),(pr, sp[:3].tolist(), q[:3].tolist()))
            except Exception as e:
                res[name]['spreadEXC '+type(e).__name__]+=1
        else:
            nmax = 0.9*pr.get('n_m', 5.0); ns = np.array([nmax*x for x in (1e-3,0.05,0.2,0.5,0.8)])
            try:
                p = m.pressure(ns); back = np.array([np.atleast_1d(m.loading(pp))[0] for pp in p])
                err=float(np.max(np.abs(back/ns-1))); worst[name]=max(worst[name],err)
                res[name]['inv ok' if err<1e-4 else 'inv BAD']+=1
                if err>=1e-4: ex.setdefault((name,'inv BAD'),(pr,ns.tolist(),back.tolist()))
            except Exception as e:
                res[name]['EXC '+type(e).__name__]+=1; ex.setdefault((name,'exc'),(pr,str(e)[:80]))
print('time', round(time.time()-t0,1))
for name in _MODELS: print(name, dict(res[name]), 'worst inv err', '%.1e'%worst[name])
for k,v in ex.items(): print(k, str(v)[:300])
