import warnings, logging, time, random, collections, math, traceback
warnings.filterwarnings('ignore')
import pygaps, numpy as np
pygaps.logger.setLevel(logging.CRITICAL)
import pygaps.iast as pgi
from pygaps.modelling import get_isotherm_model
from pygaps.utilities.exceptions import CalculationError
exec(open('oracle_c10.py').read().split("res=collections.defaultdict")[0].split("rng = random.Random(3)")[1])
rng = random.Random(9)
base = dict(material='M1', adsorbate='N2', temperature=77.344, loading_basis='molar', loading_unit='mmol', material_basis='mass', material_unit='g', pressure_mode='absolute', pressure_unit='bar', temperature_unit='K')
seen=set(); cnt=collections.Counter()
for it in range(300):
    ncomp = 2; isos=[]; names=[]
    for c in range(ncomp):
        name = rng.choice(['Henry','Langmuir','DSLangmuir','TSLangmuir','Quadratic','BET','Toth','JensenSeaton','TemkinApprox'])
        pr = params(name); names.append(name)
        if name=='BET': pr['N']=rng.uniform(0.01,0.05)
        m = get_isotherm_model(name, parameters=pr, pressure_range=(0.0,10.0), loading_range=(0.0,10.0))
        isos.append(pygaps.ModelIsotherm(model=m, **{**base,'adsorbate':['N2','CH4','CO2','O2'][c]}))
    pp = [rng.uniform(0.01,1.0) for _ in range(ncomp)]
    key=None
    try:
        n = pgi.iast_point(isos, pp, warningoff=True)
        x = n/np.sum(n); p0 = np.array(pp)/x
        sp = np.array([float(i.spreading_pressure_at(q)) for i,q in zip(isos,p0)])
        r1 = float((sp.max()-sp.min())/abs(sp.mean()))
        key = ('ok' if r1<1e-6 else 'RESID', tuple(sorted(names)))
        if r1>=1e-6 or math.isnan(r1):
            key=('RESID',tuple(sorted(names)))
            if key not in seen: print(key, 'r1=%.1e'%r1, 'x',x, 'p0',p0, 'sp',sp, [i.model.params for i in isos])
    except CalculationError as e: key=('calc',tuple(sorted(names)))
    except Exception as e:
        key=('EXC '+type(e).__name__, tuple(sorted(names)))
        if key not in seen: print(key, traceback.format_exc().splitlines()[-3:])
    seen.add(key); cnt[key[0]]+=1
print(dict(cnt))
bad = collections.Counter(); 
for k in seen:
    if k[0]!='ok': 
        for nm in k[1]: bad[(k[0],nm)]+=1
print(sorted(bad.items(), key=lambda x:-x[1]))
