import warnings, logging, time
warnings.filterwarnings('ignore')
import pygaps, numpy as np
pygaps.logger.setLevel(logging.CRITICAL)
t0=time.time(); bad=[]; n=0; worst=0
for a in pygaps.ADSORBATE_LIST:
    if not a.properties.get('backend_name'): continue
    try:
        Tt, Tc = a.t_triple(), a.t_critical()
    except Exception as e:
        bad.append((a.name,'TT',str(e)[:60])); continue
    prev=None
    for T in np.linspace(Tt + 0.02*(Tc-Tt), Tc - 0.02*(Tc-Tt), 7):
        try:
            M=a.molar_mass(); rl, rlm, rg, rgm = a.liquid_density(T), a.liquid_molar_density(T), a.gas_density(T), a.gas_molar_density(T)
            ps = a.saturation_pressure(T); hv = a.enthalpy_vaporisation(T)
            e = max(abs(rl/(rlm*M)-1), abs(rg/(rgm*M)-1)); worst=max(worst,e); n+=1
            ok = (a.p_triple()*0.999 <= ps <= a.p_critical()*1.001) and hv>0 and (prev is None or ps>prev)
            if not ok or e>1e-9: bad.append((a.name, round(T,2), e, ps, a.p_triple(), a.p_critical(), hv))
            prev=ps
        except Exception as ex:
            bad.append((a.name, round(T,2), 'EXC', str(ex)[:80]))
print('n', n, 'worst consistency', worst, 'time', time.time()-t0)
for b in bad[:25]: print(b)
print(len(bad))
