import Mathlib.Analysis.SpecialFunctions.Integrals.Basic
import Mathlib.Analysis.SpecialFunctions.Log.Deriv
import Mathlib.Tactic

open MeasureTheory intervalIntegral

/-- one linear segment of the point-isotherm spreading pressure -/
theorem seg_integral (s c a b : ℝ) (ha : 0 < a) (hab : a ≤ b) :
    ∫ x in a..b, (s * x + c) / x = s * (b - a) + c * Real.log (b / a) := by
  have hderiv : ∀ x ∈ Set.uIcc a b, HasDerivAt (fun x => s * x + c * Real.log x) ((s * x + c) / x) x := by
    intro x hx
    rw [Set.uIcc_of_le hab] at hx
    have hx0 : 0 < x := lt_of_lt_of_le ha hx.1
    have h1 : HasDerivAt (fun x => s * x) s x := by simpa using (hasDerivAt_id x).const_mul s
    have h2 : HasDerivAt (fun x => c * Real.log x) (c * x⁻¹) x := (Real.hasDerivAt_log hx0.ne').const_mul c
    have h3 := h1.add h2
    have e : (s * x + c) / x = s + c * x⁻¹ := by field_simp
    rw [e]; exact h3
  have hint : IntervalIntegrable (fun x => (s * x + c) / x) volume a b := by
    apply ContinuousOn.intervalIntegrable
    rw [Set.uIcc_of_le hab]
    apply ContinuousOn.div (by fun_prop) continuousOn_id
    intro x hx; exact (lt_of_lt_of_le ha hx.1).ne'
  rw [integral_eq_sub_of_hasDerivAt hderiv hint]
  rw [Real.log_div (lt_of_lt_of_le ha hab).ne' ha.ne']
  ring
