import Mathlib.Analysis.SpecialFunctions.Sqrt
import Mathlib.Tactic

/-- The root selected by the code's `(-y - √(y²-4xc)) / (2x)` for `x q² + y q + c` with roots `p`, `q'`. -/
theorem quad_root_pick (x p q' : ℝ) (hx : x ≠ 0)
    (hsel : (0 < x → p ≤ q') ∧ (x < 0 → q' ≤ p)) :
    let y := -x * (p + q'); let c := x * p * q'
    (-y - Real.sqrt (y ^ 2 - 4 * x * c)) / (2 * x) = p := by
  intro y c
  have hdisc : y ^ 2 - 4 * x * c = (x * (p - q')) ^ 2 := by simp only [y, c]; ring
  rw [hdisc, Real.sqrt_sq_eq_abs]
  rcases lt_or_gt_of_ne hx with hneg | hpos
  · have h := hsel.2 hneg
    have : x * (p - q') ≤ 0 := mul_nonpos_of_nonpos_of_nonneg hneg.le (by linarith)
    rw [abs_of_nonpos this]; simp only [y]; field_simp; ring
  · have h := hsel.1 hpos
    have : x * (p - q') ≤ 0 := mul_nonpos_of_nonneg_of_nonpos hpos.le (by linarith)
    rw [abs_of_nonpos this]; simp only [y]; field_simp; ring
#print axioms quad_root_pick
