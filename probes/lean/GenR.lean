import Mathlib.Analysis.SpecialFunctions.Pow.Real
import Mathlib.Analysis.SpecialFunctions.Sqrt
import Mathlib.Tactic
namespace Gen

noncomputable def Langmuir_loading (P_K : ℝ) (P_n_m : ℝ) (pressure : ℝ) : ℝ :=
  let kp := (P_K * pressure)
  ((P_n_m * kp) / ((1 : ℝ) + kp))

noncomputable def Langmuir_pressure (P_K : ℝ) (P_n_m : ℝ) (loading : ℝ) : ℝ :=
  (loading / (P_K * (P_n_m - loading)))

noncomputable def Langmuir_spreading_pressure (P_K : ℝ) (P_n_m : ℝ) (pressure : ℝ) : ℝ :=
  (P_n_m * (Real.log ((1 : ℝ) + (P_K * pressure))))

noncomputable def BET_loading (P_C : ℝ) (P_N : ℝ) (P_n_m : ℝ) (pressure : ℝ) : ℝ :=
  let nm := P_n_m
  let N := P_N
  let C := P_C
  (((nm * C) * pressure) / (((1 : ℝ) - (N * pressure)) * (((1 : ℝ) - (N * pressure)) + (C * pressure))))

-- UNTRANSLATED BET.pressure: If(test=Call(func=Attribute(value=Call(func=Attribute(value=Name(id='numpy', ctx

noncomputable def BET_spreading_pressure (P_C : ℝ) (P_N : ℝ) (P_n_m : ℝ) (pressure : ℝ) : ℝ :=
  let nm := P_n_m
  let N := P_N
  let C := P_C
  (nm * (Real.log ((((1 : ℝ) - (N * pressure)) + (C * pressure)) / ((1 : ℝ) - (N * pressure)))))

noncomputable def TemkinApprox_loading (P_K : ℝ) (P_n_m : ℝ) (P_tht : ℝ) (pressure : ℝ) : ℝ :=
  let n_m := P_n_m
  let Kp := (P_K * pressure)
  let tht := P_tht
  let lang_load := (Kp / ((1 : ℝ) + Kp))
  (n_m * (lang_load + ((tht * (lang_load ^ (2 : ℕ))) * (lang_load - (1 : ℝ)))))

-- UNTRANSLATED TemkinApprox.pressure: FunctionDef(name='fun', args=arguments(posonlyargs=[], args=[arg(arg='x')], kwon

noncomputable def TemkinApprox_spreading_pressure (P_K : ℝ) (P_n_m : ℝ) (P_tht : ℝ) (pressure : ℝ) : ℝ :=
  let n_m := P_n_m
  let Kp := (P_K * pressure)
  let tht := P_tht
  let one_plus_kp := ((1 : ℝ) + Kp)
  (n_m * ((Real.log one_plus_kp) + ((tht * (((2 : ℝ) * Kp) + (1 : ℝ))) / ((2 : ℝ) * (one_plus_kp ^ (2 : ℕ))))))

noncomputable def Freundlich_loading (P_K : ℝ) (P_m : ℝ) (pressure : ℝ) : ℝ :=
  (P_K * (Real.rpow pressure ((1 : ℝ) / P_m)))

noncomputable def Freundlich_pressure (P_K : ℝ) (P_m : ℝ) (loading : ℝ) : ℝ :=
  (Real.rpow (loading / P_K) P_m)

noncomputable def Freundlich_spreading_pressure (P_K : ℝ) (P_m : ℝ) (pressure : ℝ) : ℝ :=
  let K := P_K
  let m := P_m
  ((m * K) * (Real.rpow pressure ((1 : ℝ) / m)))

end Gen
