import Mathlib.Algebra.Order.Field.Rat
import Mathlib.Data.Rat.Cast.CharZero
import Mathlib.Tactic

namespace Sm2
inductive Err | param | calc | other deriving DecidableEq, Repr

def pressureUnits : List (String × Nat × Nat) :=
  [("Pa",1,1),("kPa",1000,1),("MPa",1000000,1),("mbar",100,1),("bar",100000,1),("atm",101325,1),
   ("mmHg",133322,1000),("torr",133322,1000)]

variable {α : Type} [Field α] [CharZero α]

def truthy : Option String → Bool | none => false | some s => s != ""

def fac (u : Option String) : Except Err α :=
  match u with
  | none => .error .param
  | some s => if s = "" then .error .param else
    match pressureUnits.lookup s with
    | some (n, d) => .ok ((n : α) / (d : α))
    | none => .error .param

inductive Mode | abs | rel | relp deriving DecidableEq, Repr
def parseMode : Option String → Except Err Mode
  | some "absolute" => .ok .abs | some "relative" => .ok .rel | some "relative%" => .ok .relp
  | _ => .error .param

/-- `c_pressure`; `psat` in Pa, `none` models a falsy temperature -/
def cPressure (psat : Option α) (v : α) (mf mt uf ut : Option String) : Except Err α := do
  let mf ← parseMode mf
  let mt ← parseMode mt
  if mf ≠ mt then
    if mf = .abs ∨ mt = .abs then
      let fu ← (fac (if mf = .abs then uf else ut) : Except Err α)
      match psat with
      | none => .error .param
      | some ps =>
        let f0 := ps / fu
        let f := if mf = .relp ∨ mt = .relp then f0 / 100 else f0
        pure (if mf = .abs then v / f else v * f)
    else pure (if mt = .relp then v * 100 else v / 100)
  else if truthy ut && mf = .abs then do
    let ft ← (fac ut : Except Err α)
    let ff ← (fac uf : Except Err α)
    pure (v * (ff / ft))
  else pure v

/-- Spec: Pa represented by value 1 in a representation -/
def scaleP (ps : α) (m : Mode) (fu : α) : α :=
  match m with | .abs => fu | .rel => ps | .relp => ps / 100

theorem lookup_all {β} (t : List (String × β)) (P : β → Bool) (hall : t.all (fun e => P e.2) = true)
    (s : String) (b : β) (h : t.lookup s = some b) : P b = true := by
  induction t with
  | nil => simp [List.lookup] at h
  | cons e t ih =>
    simp only [List.all_cons, Bool.and_eq_true] at hall
    rw [List.lookup_cons] at h
    split at h
    · cases h; exact hall.1
    · exact ih hall.2 h

theorem units_ok : pressureUnits.all (fun e => decide (e.2.1 ≠ 0 ∧ e.2.2 ≠ 0)) = true := by decide

theorem fac_ne_zero (u : Option String) (f : α) (h : (fac u : Except Err α) = .ok f) : f ≠ 0 := by
  unfold fac at h
  split at h
  · cases h
  · rename_i s
    split at h
    · cases h
    · split at h
      · rename_i n d hl
        have := lookup_all pressureUnits (fun e => decide (e.1 ≠ 0 ∧ e.2 ≠ 0)) units_ok s (n, d) hl
        simp only [decide_eq_true_eq] at this
        cases h
        have h1 : (n : α) ≠ 0 := Nat.cast_ne_zero.mpr this.1
        have h2 : (d : α) ≠ 0 := Nat.cast_ne_zero.mpr this.2
        exact div_ne_zero h1 h2
      · cases h

/-- spec: conversion = rescaling by the Pa content of the two representations -/
theorem cPressure_spec (ps v : α) (hps : ps ≠ 0) (mf mt : Mode) (smf smt uf ut : Option String) (ff ft r : α)
    (hmf : parseMode smf = .ok mf) (hmt : parseMode smt = .ok mt)
    (hff : mf = .abs → (fac uf : Except Err α) = .ok ff) (hft : mt = .abs → (fac ut : Except Err α) = .ok ft)
    (hut : mt = .abs → truthy ut = true)
    (h : cPressure (some ps) v smf smt uf ut = .ok r) :
    r = v * scaleP ps mf ff / scaleP ps mt ft := by
  unfold cPressure at h
  simp only [hmf, hmt, bind, Except.bind] at h
  have h100 : (100 : α) ≠ 0 := by norm_num
  cases mf <;> cases mt <;> simp [scaleP, hff, hft, hut, bind, Except.bind, pure, Except.pure] at h ⊢
  all_goals (subst h)
  all_goals (try have hf0 := fac_ne_zero uf ff (hff rfl))
  all_goals (try have ht0 := fac_ne_zero ut ft (hft rfl))
  all_goals (first | rfl | (field_simp) | (field_simp; ring))
end Sm2
