import Mathlib.Algebra.Order.Field.Rat

def conv {α} [Field α] (v f t : α) : α := v * (f / t)

/-- exact value of a finite IEEE double -/
def bitsToRat (b : UInt64) : Option Rat :=
  let sign : Int := if b >>> 63 == 1 then -1 else 1
  let e := ((b >>> 52) &&& 0x7FF).toNat
  let m := (b &&& 0xFFFFFFFFFFFFF).toNat
  if e == 0x7FF then none
  else
    let (mant, ex) : Nat × Int := if e == 0 then (m, -1074) else (m + 2^52, (e : Int) - 1075)
    some (if ex ≥ 0 then (sign * mant : Int) * (2:Rat)^ex.toNat else ((sign * mant : Int) : Rat) / (2:Rat)^((-ex).toNat))

def main : IO Unit := do
  let stdin ← IO.getStdin
  let l ← stdin.getLine
  let r : Rat := conv (3/7 : Rat) (1/1000) (4461/100000000)
  IO.println s!"{r.num}/{r.den} {l.trimAscii} {bitsToRat (0.1:Float).toBits}"
