import Mathlib.Analysis.SpecialFunctions.Pow.Real
import Mathlib.Analysis.SpecialFunctions.Pow.Deriv
import Mathlib.Tactic

noncomputable section
namespace Spike
open Real

def tothLoading (nm K t p : ℝ) : ℝ := nm * (K * p) / (1 + (K * p) ^ t) ^ (1 / t)
def tothPressure (nm K t n : ℝ) : ℝ := (n / (nm * K)) / (1 - (n / nm) ^ t) ^ (1 / t)

theorem toth_inv (nm K t p : ℝ) (hnm : 0 < nm) (hK : 0 < K) (ht : 0 < t) (hp : 0 < p) :
    tothPressure nm K t (tothLoading nm K t p) = p := by
  unfold tothPressure tothLoading
  set u := K * p with hu
  have hu0 : 0 < u := by positivity
  have hA : 0 < 1 + u ^ t := by positivity
  set A := 1 + u ^ t with hAdef
  have hAt : 0 < A ^ (1 / t) := by positivity
  have h1 : nm * u / A ^ (1 / t) / nm = u / A ^ (1 / t) := by field_simp
  have h2 : (u / A ^ (1 / t)) ^ t = u ^ t / A := by
    rw [div_rpow hu0.le hAt.le, ← rpow_mul hA.le]
    have : 1 / t * t = 1 := by field_simp
    rw [this, rpow_one]
  have h3 : 1 - u ^ t / A = 1 / A := by
    rw [hAdef]; field_simp; ring
  have h4 : (1 / A) ^ (1 / t) = 1 / A ^ (1 / t) := by
    rw [div_rpow zero_le_one hA.le, one_rpow]
  rw [h1, h2, h3, h4]
  rw [hu]; field_simp

-- Freundlich spreading pressure derivative
def frLoading (K m p : ℝ) : ℝ := K * p ^ (1 / m)
def frSpread (K m p : ℝ) : ℝ := m * K * p ^ (1 / m)
theorem fr_spread_deriv (K m p : ℝ) (hm : 0 < m) (hp : 0 < p) :
    HasDerivAt (frSpread K m) (frLoading K m p / p) p := by
  unfold frSpread frLoading
  have h := (Real.hasDerivAt_rpow_const (x := p) (p := 1 / m) (Or.inl hp.ne')).const_mul (m * K)
  have e : K * p ^ (1 / m) / p = m * K * (1 / m * p ^ (1 / m - 1)) := by
    rw [rpow_sub_one hp.ne']; field_simp
  rw [e]; exact h

-- Henry limit for Langmuir: n(p)/p → nm*K as p → 0+
def langLoading (K nm p : ℝ) : ℝ := nm * (K * p) / (1 + K * p)
theorem lang_henry (K nm : ℝ) (hK : 0 < K) :
    Filter.Tendsto (fun p => langLoading K nm p / p) (nhdsWithin 0 (Set.Ioi 0)) (nhds (nm * K)) := by
  have hc : ContinuousAt (fun p : ℝ => nm * K / (1 + K * p)) 0 := by
    apply ContinuousAt.div (by fun_prop) (by fun_prop); simp
  have h0 : Filter.Tendsto (fun p : ℝ => nm * K / (1 + K * p)) (nhdsWithin 0 (Set.Ioi 0)) (nhds (nm * K)) := by
    have := hc.tendsto.mono_left (nhdsWithin_le_nhds (s := Set.Ioi 0)); simpa using this
  refine h0.congr' ?_
  filter_upwards [self_mem_nhdsWithin] with p hp
  have hp' : (0:ℝ) < p := hp
  unfold langLoading; field_simp
end Spike
