import Leanspike.GenR

noncomputable section
namespace Spec
def langmuir (K nm p : ℝ) : ℝ := nm * K * p / (1 + K * p)
def bet (nm C N p : ℝ) : ℝ := nm * C * p / ((1 - N * p) * (1 - N * p + C * p))
def temkin (nm K θ p : ℝ) : ℝ :=
  let x := K * p / (1 + K * p); nm * (x + θ * x ^ 2 * (x - 1))
def temkinSpread (nm K θ p : ℝ) : ℝ :=
  nm * (Real.log (1 + K * p) + θ * (2 * K * p + 1) / (2 * (1 + K * p) ^ 2))
end Spec

open Gen
/-- robust tie tactic: unfold both sides, normalise lets, close by ring normalisation -/
macro "tie" : tactic => `(tactic| (first | rfl | (simp only []; ring_nf) | (simp only []; field_simp; ring_nf)))

theorem tie_langmuir (K nm p : ℝ) : Langmuir_loading K nm p = Spec.langmuir K nm p := by
  unfold Langmuir_loading Spec.langmuir; tie
theorem tie_bet (nm C N p : ℝ) : BET_loading C N nm p = Spec.bet nm C N p := by
  unfold BET_loading Spec.bet; tie
theorem tie_temkin (nm K θ p : ℝ) : TemkinApprox_loading K nm θ p = Spec.temkin nm K θ p := by
  unfold TemkinApprox_loading Spec.temkin; tie
theorem tie_temkin_sp (nm K θ p : ℝ) : TemkinApprox_spreading_pressure K nm θ p = Spec.temkinSpread nm K θ p := by
  unfold TemkinApprox_spreading_pressure Spec.temkinSpread; tie
#print axioms tie_temkin_sp
