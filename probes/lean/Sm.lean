import Mathlib.Algebra.Order.Field.Rat
import Mathlib.Data.Rat.Cast.CharZero
import Mathlib.Tactic

namespace Sm
inductive Err | param | calc | other deriving DecidableEq, Repr

/-- generated: unit ↦ (num, den) -/
def pressureUnits : List (String × Nat × Nat) :=
  [("Pa",1,1),("kPa",1000,1),("MPa",1000000,1),("mbar",100,1),("bar",100000,1),("atm",101325,1),
   ("mmHg",133322,1000),("torr",133322,1000)]
def modes : List String := ["absolute","relative","relative%"]

variable {α : Type} [Field α] [CharZero α]

def truthy : Option String → Bool | none => false | some s => s != ""

def fac (u : Option String) : Except Err α :=
  if !truthy u then .error .param else
  match pressureUnits.lookup (u.getD "") with
  | some (n, d) => .ok ((n : α) / (d : α))
  | none => .error .param

def checkMode (m : Option String) : Except Err String :=
  if !truthy m then .error .param else
  if modes.contains (m.getD "") then .ok (m.getD "") else .error .param

/-- `c_pressure` (psat in Pa; `temp` truthiness folded into `psat? = none`) -/
def cPressure (psatPa : Option α) (v : α) (mf mt uf ut : Option String) : Except Err α := do
  let mf ← checkMode mf
  let mt ← checkMode mt
  if mf != mt then
    if mf == "absolute" || mt == "absolute" then
      let (unit, sign) := if mf == "absolute" then (uf, false) else (ut, true)
      -- both checks happen in the code; when mf = absolute the `to` check is skipped
      let fu ← (fac unit : Except Err α)
      match psatPa with
      | none => .error .param
      | some ps =>
        let f0 := ps / fu   -- saturation pressure expressed in `unit`
        let f := if mf == "relative%" || mt == "relative%" then f0 / 100 else f0
        pure (if sign then v * f else v / f)
    else
      pure (if mt == "relative%" then v * 100 else v / 100)
  else if truthy ut && mf == "absolute" then do
    let ft ← (fac ut : Except Err α)
    let ff ← (fac uf : Except Err α)
    pure (v * (ff / ft))
  else pure v

structure St (α : Type) where
  mode : String
  unit : Option String
  p : α
deriving Repr

def Valid (s : St α) : Prop :=
  s.mode ∈ modes ∧ (s.mode = "absolute" → ∃ n d, pressureUnits.lookup (s.unit.getD "") = some (n,d) ∧ truthy s.unit) ∧
  (s.mode ≠ "absolute" → s.unit = none)

/-- convert_pressure as in pointisotherm.py (unfixed) -/
def convertPressure (psat : Option α) (s : St α) (modeTo unitTo : Option String) : St α × Option Err :=
  let mt := if truthy modeTo then modeTo else some s.mode
  if mt == some s.mode && unitTo == s.unit then (s, none) else
  match cPressure psat s.p (some s.mode) mt s.unit unitTo with
  | .error _ => (s, some .calc)
  | .ok p' =>
    let mode' := mt.getD ""
    let unit' := if unitTo != s.unit && mode' == "absolute" then unitTo else none
    ({ mode := mode', unit := unit', p := p' }, none)

-- the S2 witness, provable by evaluation at α = ℚ
example : (convertPressure (α := ℚ) (some 100000) ⟨"absolute", some "bar", 1⟩ (some "absolute") none).1.unit = none := by
  decide
end Sm
