import Mathlib.Analysis.SpecialFunctions.Log.Deriv
import Mathlib.Analysis.SpecialFunctions.Sqrt
import Mathlib.Tactic

noncomputable section
namespace Spike

def langLoading (K nm p : ℝ) : ℝ := nm * (K * p) / (1 + K * p)
def langSpread (K nm p : ℝ) : ℝ := nm * Real.log (1 + K * p)

theorem lang_spread_deriv (K nm p : ℝ) (hK : 0 < K) (hp : 0 < p) :
    HasDerivAt (langSpread K nm) (langLoading K nm p / p) p := by
  unfold langSpread langLoading
  have h : 0 < 1 + K * p := by positivity
  have h1 : HasDerivAt (fun x => 1 + K * x) K p := by
    simpa using ((hasDerivAt_id p).const_mul K).const_add 1
  have h2 := (h1.log h.ne').const_mul nm
  have e : nm * (K * p) / (1 + K * p) / p = nm * (K / (1 + K * p)) := by
    field_simp
  rw [e]; exact h2

def betLoading (nm C N p : ℝ) : ℝ := nm * C * p / ((1 - N * p) * (1 - N * p + C * p))
def betSpread (nm C N p : ℝ) : ℝ := nm * Real.log ((1 - N * p + C * p) / (1 - N * p))

theorem bet_spread_deriv (nm C N p : ℝ) (hC : 0 < C) (hN : 0 < N) (hp : 0 < p) (hpole : N * p < 1) :
    HasDerivAt (betSpread nm C N) (betLoading nm C N p / p) p := by
  unfold betSpread betLoading
  have hd : 0 < 1 - N * p := by linarith
  have hn : 0 < 1 - N * p + C * p := by positivity
  have h1 : HasDerivAt (fun x => 1 - N * x + C * x) (-N + C) p := by
    have a := ((hasDerivAt_id p).const_mul N).const_sub 1
    have b := (hasDerivAt_id p).const_mul C
    have := a.add b
    simp only [id, mul_one] at this
    exact this
  have h2 : HasDerivAt (fun x => 1 - N * x) (-N) p := by
    simpa using ((hasDerivAt_id p).const_mul N).const_sub 1
  have h3 := ((h1.div h2 hd.ne').log (div_pos hn hd).ne').const_mul nm
  have e : nm * C * p / ((1 - N * p) * (1 - N * p + C * p)) / p =
      nm * (((-N + C) * (1 - N * p) - (1 - N * p + C * p) * -N) / (1 - N * p) ^ 2 /
        ((1 - N * p + C * p) / (1 - N * p))) := by
    field_simp
    ring
  rw [e]; exact h3

end Spike
